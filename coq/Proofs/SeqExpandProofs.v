(** Proofs about Model/SeqExpand.v: gate-sequence expansion (C20) and its source map (C21). *)
From Coq Require Import List NArith Bool Arith Relations Lia.
From QV Require Import Model.SeqExpand.
Import ListNotations.

(** * Basic facts *)

Lemma memN_In n l : memN n l = true <-> In n l.
Proof.
  induction l as [|x t IH]; cbn [memN In].
  - split; [discriminate | tauto].
  - destruct (N.eqb_spec n x) as [->|Hne].
    + split; auto.
    + rewrite IH. split; [auto | intros [Heq | Hin]; [congruence | exact Hin]].
Qed.

Lemma memN_false n l : memN n l = false <-> ~ In n l.
Proof.
  rewrite <- memN_In. destruct (memN n l).
  - split; [discriminate | intros H; exfalso; now apply H].
  - split; [intros _; discriminate | reflexivity].
Qed.

Lemma list_eqb_eq {A} (eqb : A -> A -> bool) (a b : list A) :
  (forall x y, In x a -> eqb x y = true -> x = y) -> list_eqb eqb a b = true -> a = b.
Proof.
  revert b. induction a as [|x a IH]; intros [|y b] Hs H; cbn in H; try discriminate; auto.
  apply andb_true_iff in H. destruct H as [H1 H2]. f_equal.
  - apply Hs; [now left | exact H1].
  - apply IH; [| exact H2]. intros u v Hu. apply Hs. now right.
Qed.

Lemma listN_eqb_eq (a b : list N) : list_eqb N.eqb a b = true -> a = b.
Proof. apply list_eqb_eq. intros x y _ H. now apply N.eqb_eq. Qed.

Lemma expr_eqb_eq a : forall b, expr_eqb a b = true -> a = b.
Proof.
  induction a as [n | | v | r i | o e IH | f e IH | o l IHl r IHr]; intros [] H; cbn in H;
    try discriminate; auto.
  - apply N.eqb_eq in H. now subst.
  - apply N.eqb_eq in H. now subst.
  - apply andb_true_iff in H. destruct H as [H1 H2]. apply N.eqb_eq in H1, H2. now subst.
  - apply andb_true_iff in H. destruct H as [H1 H2]. apply N.eqb_eq in H1. apply IH in H2. now subst.
  - apply andb_true_iff in H. destruct H as [H1 H2]. apply N.eqb_eq in H1. apply IH in H2. now subst.
  - apply andb_true_iff in H. destruct H as [H12 H3]. apply andb_true_iff in H12.
    destruct H12 as [H1 H2]. apply N.eqb_eq in H1. apply IHl in H2. apply IHr in H3. now subst.
Qed.

Lemma qubit_eqb_eq a b : qubit_eqb a b = true -> a = b.
Proof. destruct a, b; cbn; try discriminate; intros H; apply N.eqb_eq in H; now subst. Qed.

Lemma gate_eqb_eq a b : gate_eqb a b = true -> a = b.
Proof.
  unfold gate_eqb. intros H.
  apply andb_true_iff in H. destruct H as [H H4].
  apply andb_true_iff in H. destruct H as [H H3].
  apply andb_true_iff in H. destruct H as [H1 H2].
  apply N.eqb_eq in H1. apply listN_eqb_eq in H4.
  apply list_eqb_eq in H2; [| intros x y _; apply expr_eqb_eq].
  apply list_eqb_eq in H3; [| intros x y _; apply qubit_eqb_eq].
  destruct a, b; cbn in *. now subst.
Qed.

Lemma instr_eqb_eq a b : instr_eqb a b = true -> a = b.
Proof.
  destruct a, b; cbn; try discriminate; intros H.
  - apply gate_eqb_eq in H. now subst.
  - apply N.eqb_eq in H. now subst.
Qed.

Lemma instrs_eqb_eq a b : list_eqb instr_eqb a b = true -> a = b.
Proof. apply list_eqb_eq. intros x y _. apply instr_eqb_eq. Qed.

Lemma err_eqb_eq a b : err_eqb a b = true -> a = b.
Proof.
  destruct a, b; cbn; try discriminate; intros H; auto.
  - apply andb_true_iff in H. destruct H as [H1 H2]. apply Nat.eqb_eq in H1, H2. now subst.
  - apply listN_eqb_eq in H. now subst.
  - apply andb_true_iff in H. destruct H as [H1 H2]. apply Nat.eqb_eq in H1, H2. now subst.
  - apply qubit_eqb_eq in H. now subst.
  - apply listN_eqb_eq in H. now subst.
  - apply qubit_eqb_eq in H. now subst.
  - apply N.eqb_eq in H. now subst.
Qed.

(** * Substitution: declarative specification

    [binds ks vs k v]: [v] is the actual at the LAST position where the formal is [k]. *)
Definition binds {V} (ks : list name) (vs : list V) (k : name) (v : V) : Prop :=
  exists j, nth_error ks j = Some k /\ nth_error vs j = Some v /\
            forall j', j < j' -> nth_error ks j' <> Some k.

Lemma get_last_none {V} k (ks : list name) (vs : list V) :
  length ks = length vs -> (get_last k (combine ks vs) = None <-> ~ In k ks).
Proof.
  revert vs. induction ks as [|a ks IH]; intros [|b vs] Hl; cbn in *; try discriminate.
  - tauto.
  - injection Hl as Hl. specialize (IH vs Hl).
    destruct (get_last k (combine ks vs)) eqn:E.
    + split; [discriminate|]. intros Hn. exfalso.
      assert (Hk : ~ In k ks) by tauto. apply IH in Hk. discriminate.
    + destruct (N.eqb_spec k a) as [->|Hne].
      * split; [discriminate|]. intros Hn. exfalso. apply Hn. now left.
      * split; [|reflexivity]. intros _ [Ha|Hin]; [congruence|]. now apply IH.
Qed.

Lemma get_last_binds {V} k (ks : list name) (vs : list V) v :
  length ks = length vs -> (get_last k (combine ks vs) = Some v <-> binds ks vs k v).
Proof.
  revert vs v. induction ks as [|a ks IH]; intros [|b vs] v Hl; cbn in *; try discriminate.
  - split; [discriminate|]. intros [j [H _]]. destruct j; discriminate.
  - injection Hl as Hl. pose proof (fun v => IH vs v Hl) as IH'. clear IH.
    destruct (get_last k (combine ks vs)) as [w|] eqn:E.
    + assert (Hb : binds ks vs k w) by now apply IH'.
      split.
      * intros H. injection H as ->. destruct Hb as [j [H1 [H2 H3]]].
        exists (S j). cbn. repeat split; auto. intros [|j'] Hlt; [lia|]. cbn. apply H3. lia.
      * intros [j [H1 [H2 H3]]]. f_equal.
        destruct Hb as [i [G1 [G2 G3]]].
        destruct j as [|j].
        -- exfalso. apply (H3 (S i)); [lia|]. exact G1.
        -- cbn in H1, H2.
           destruct (Nat.lt_trichotomy i j) as [Hlt|[->|Hgt]].
           ++ exfalso. now apply (G3 j).
           ++ congruence.
           ++ exfalso. apply (H3 (S i)); [lia|]. exact G1.
    + apply (get_last_none k ks vs Hl) in E.
      destruct (N.eqb_spec k a) as [->|Hne].
      * split.
        -- intros H. injection H as ->. exists 0. cbn. repeat split; auto.
           intros [|j'] Hlt; [lia|]. cbn. intros Hn. apply E. eapply nth_error_In; eauto.
        -- intros [j [H1 [H2 H3]]]. destruct j as [|j]; cbn in *; [congruence|].
           exfalso. apply E. eapply nth_error_In; eauto.
      * split; [discriminate|]. intros [j [H1 [H2 H3]]]. destruct j as [|j]; cbn in *.
        -- congruence.
        -- exfalso. apply E. eapply nth_error_In; eauto.
Qed.

Lemma binds_fun {V} ks (vs : list V) k v w : binds ks vs k v -> binds ks vs k w -> v = w.
Proof.
  intros [i [G1 [G2 G3]]] [j [H1 [H2 H3]]].
  destruct (Nat.lt_trichotomy i j) as [Hlt|[->|Hgt]].
  - exfalso. now apply (G3 j).
  - congruence.
  - exfalso. now apply (H3 i).
Qed.

Lemma binds_In {V} ks (vs : list V) k v : binds ks vs k v -> In k ks.
Proof. intros [i [G1 _]]. eapply nth_error_In; eauto. Qed.

(** [ESub ks vs e e']: [e'] is [e] with every variable bound by the formals [ks] replaced by the
    corresponding actual of [vs]; unbound variables and all other leaves stay. *)
Inductive ESub (ks : list name) (vs : list expr) : expr -> expr -> Prop :=
| ES_bound v a : binds ks vs v a -> ESub ks vs (EVar v) a
| ES_free v : ~ In v ks -> ESub ks vs (EVar v) (EVar v)
| ES_num n : ESub ks vs (ENum n) (ENum n)
| ES_pi : ESub ks vs EPi EPi
| ES_addr r i : ESub ks vs (EAddr r i) (EAddr r i)
| ES_pre o e e' : ESub ks vs e e' -> ESub ks vs (EPre o e) (EPre o e')
| ES_fun f e e' : ESub ks vs e e' -> ESub ks vs (EFun f e) (EFun f e')
| ES_bin o l l' r r' : ESub ks vs l l' -> ESub ks vs r r' -> ESub ks vs (EBin o l r) (EBin o l' r').

Lemma subst_expr_ESub ks vs e :
  length ks = length vs -> ESub ks vs e (subst_expr (combine ks vs) e).
Proof.
  intros Hl. induction e; cbn [subst_expr]; try (constructor; auto; fail).
  destruct (get_last v (combine ks vs)) eqn:E.
  - apply ES_bound. now apply get_last_binds.
  - apply ES_free. now apply (get_last_none v ks vs Hl).
Qed.

Lemma ESub_fun ks vs e e' :
  length ks = length vs -> ESub ks vs e e' -> e' = subst_expr (combine ks vs) e.
Proof.
  intros Hl H. induction H; cbn [subst_expr]; try congruence.
  - apply (get_last_binds v ks vs a Hl) in H. now rewrite H.
  - apply (get_last_none v ks vs Hl) in H. now rewrite H.
Qed.

(** One element of a sequence body instantiated with the actual parameters and qubits. *)
Definition QSub (fs : list name) (qs : list qubit) (q q' : qubit) : Prop :=
  exists v, q = QVar v /\ binds fs qs v q'.

Definition GSub (ps : list name) (args : list expr) (fs : list name) (qs : list qubit)
           (b b' : gate) : Prop :=
  gname b' = gname b /\ gmods b' = gmods b /\
  Forall2 (ESub ps args) (gparams b) (gparams b') /\
  Forall2 (QSub fs qs) (gqubits b) (gqubits b').

Definition all_fixed (qs : list qubit) : Prop := Forall (fun q => exists n, q = QFixed n) qs.

Lemma map_res_ok {A B} (f : A -> res B) (R : A -> B -> Prop) l r :
  (forall x y, In x l -> f x = Ok y -> R x y) -> map_res f l = Ok r -> Forall2 R l r.
Proof.
  revert r. induction l as [|x l IH]; intros r HR H; cbn in H.
  - injection H as <-. constructor.
  - destruct (f x) eqn:E; [|discriminate]. destruct (map_res f l) eqn:E2; [|discriminate].
    injection H as <-. constructor.
    + apply HR; [now left | exact E].
    + apply IH; auto. intros u v Hu. apply HR. now right.
Qed.

Lemma map_res_complete {A B} (f : A -> res B) (R : A -> B -> Prop) l r :
  (forall x y, In x l -> R x y -> f x = Ok y) -> Forall2 R l r -> map_res f l = Ok r.
Proof.
  intros HR H. induction H as [|x y l r Hxy H IH]; cbn; auto.
  rewrite (HR x y); [| now left | exact Hxy]. rewrite IH; auto.
  intros u v Hu. apply HR. now right.
Qed.

Lemma map_res_err {A B} (f : A -> res B) l e :
  map_res f l = Err e ->
  exists pre x post ys, l = pre ++ x :: post /\ map_res f pre = Ok ys /\ f x = Err e.
Proof.
  induction l as [|x l IH]; cbn; [discriminate|].
  destruct (f x) eqn:E.
  - destruct (map_res f l) eqn:E2; [discriminate|]. intros H. injection H as ->.
    destruct (IH eq_refl) as [pre [z [post [ys [H1 [H2 H3]]]]]].
    exists (x :: pre), z, post, (a :: ys). cbn. rewrite H1, H2, E. auto.
  - intros H. injection H as ->. exists [], x, l, []. auto.
Qed.

Lemma fixed_args_ok qs fixed :
  map_res fixed_arg qs = Ok fixed -> map QFixed fixed = qs /\ all_fixed qs.
Proof.
  revert fixed. induction qs as [|q qs IH]; intros fixed H; cbn in H.
  - injection H as <-. split; [reflexivity | constructor].
  - destruct q; cbn in H; try discriminate.
    destruct (map_res fixed_arg qs) eqn:E; [|discriminate]. injection H as <-.
    destruct (IH _ eq_refl) as [H1 H2]. split.
    + cbn. now rewrite H1.
    + constructor; [now exists n | exact H2].
Qed.

Lemma fixed_args_complete qs :
  all_fixed qs -> exists fixed, map_res fixed_arg qs = Ok fixed /\ map QFixed fixed = qs.
Proof.
  induction 1 as [|q qs [n ->] _ [fixed [H1 H2]]].
  - exists []. auto.
  - exists (n :: fixed). cbn. rewrite H1, H2. auto.
Qed.

Lemma Forall2_length' {A B} (R : A -> B -> Prop) l r : Forall2 R l r -> length l = length r.
Proof. induction 1; cbn; auto. Qed.

Lemma subst_gate_GSub ps args fs qs b b' :
  length ps = length args -> length fs = length qs ->
  (subst_gate (combine ps args) (combine fs qs) b = Ok b' <-> GSub ps args fs qs b b').
Proof.
  intros Hp Hq. unfold subst_gate, GSub. split.
  - destruct (map_res (subst_qubit (combine fs qs)) (gqubits b)) eqn:E; [|discriminate].
    intros H. injection H as <-. cbn. repeat split; auto.
    + clear E. induction (gparams b); cbn; constructor; auto. now apply subst_expr_ESub.
    + eapply map_res_ok; [| exact E]. intros q q' _. unfold subst_qubit.
      destruct q; try discriminate. destruct (get_last v (combine fs qs)) eqn:G; [|discriminate].
      intros H. injection H as <-. exists v. split; auto. now apply get_last_binds.
  - intros [H1 [H2 [H3 H4]]].
    rewrite (map_res_complete _ (QSub fs qs) _ (gqubits b')); auto.
    + f_equal. destruct b'; cbn in *. subst. f_equal.
      clear H4. induction H3 as [|e e' l l' He _ IH]; cbn; auto.
      rewrite <- (ESub_fun ps args e e' Hp He). now rewrite <- IH.
    + intros q q' _ [v [-> Hb]]. cbn. apply get_last_binds in Hb; auto. now rewrite Hb.
Qed.

(** * Specification of one invocation *)

Lemma find_def_some defs n d : find_def defs n = Some d -> dname d = n /\ In d defs.
Proof.
  induction defs as [|x t IH]; cbn; [discriminate|].
  destruct (N.eqb_spec (dname x) n) as [Heq|Hne].
  - intros H. injection H as <-. auto.
  - intros H. destruct (IH H). auto.
Qed.

Lemma map_res_app_err {A B} (f : A -> res B) pre x post ys e :
  map_res f pre = Ok ys -> f x = Err e -> map_res f (pre ++ x :: post) = Err e.
Proof.
  revert ys. induction pre as [|a pre IH]; intros ys H1 H2; cbn in *.
  - now rewrite H2.
  - destruct (f a); [|discriminate]. destruct (map_res f pre) eqn:E; [|discriminate].
    now rewrite (IH _ eq_refl H2).
Qed.

Lemma fixed_args_err qs e :
  map_res fixed_arg qs = Err e <->
  exists pre q post, qs = pre ++ q :: post /\ all_fixed pre /\ (forall n, q <> QFixed n)
                     /\ e = ENonFixed q.
Proof.
  split.
  - intros H. apply map_res_err in H. destruct H as [pre [q [post [ys [H1 [H2 H3]]]]]].
    exists pre, q, post. split; auto. split; [apply (fixed_args_ok _ _ H2)|].
    destruct q; cbn in H3; try discriminate; injection H3 as <-; split; auto; intros m; discriminate.
  - intros [pre [q [post [-> [Hp [Hq ->]]]]]].
    destruct (fixed_args_complete _ Hp) as [fixed [Hf _]].
    eapply map_res_app_err; eauto.
    destruct q; cbn; auto. exfalso. now apply (Hq n).
Qed.

Section Spec.
  Variable defs : list gdef.
  Variable sel : name -> bool.

  (** [g] applies a gate whose definition [d] is a sequence (formal qubits, body) that the filter
      selects. *)
  Definition Invocation (g : gate) (d : gdef) (formals : list name) (body : list gate) : Prop :=
    find_def defs (gname g) = Some d /\ dspec d = SSeq formals body /\ sel (gname g) = true.

  (** Instructions the expansion leaves alone: non-gates, gates without a definition, gates with a
      non-sequence definition, gates whose name the filter rejects. *)
  Definition Untouched (i : instr) : Prop :=
    match i with
    | IOther _ => True
    | IGate g => forall d formals body, ~ Invocation g d formals body
    end.

  (** [body'] is the sequence body with the formal parameters and formal qubits replaced by the
      invocation's arguments (arity and shape conditions included). *)
  Definition Instantiates (g : gate) (d : gdef) (formals : list name) (body body' : list gate)
    : Prop :=
    length (gparams g) = length (dparams d) /\ gmods g = [] /\
    length (gqubits g) = length formals /\ all_fixed (gqubits g) /\
    Forall2 (GSub (dparams d) (gparams g) formals (gqubits g)) body body'.

  (** The error an invocation raises by itself, in the order the code checks. *)
  Inductive InvErr (st : list name) (g : gate) (d : gdef) (formals : list name) : err -> Prop :=
  | IE_params :
      length (gparams g) <> length (dparams d) ->
      InvErr st g d formals (EParamCount (length (dparams d)) (length (gparams g)))
  | IE_mods :
      length (gparams g) = length (dparams d) -> gmods g <> [] ->
      InvErr st g d formals (EMods (gmods g))
  | IE_cycle :
      length (gparams g) = length (dparams d) -> gmods g = [] -> In (gname g) st ->
      InvErr st g d formals (ECycle st)
  | IE_qcount :
      length (gparams g) = length (dparams d) -> gmods g = [] -> ~ In (gname g) st ->
      length (gqubits g) <> length formals ->
      InvErr st g d formals (EQubitCount (length formals) (length (gqubits g)))
  | IE_nonfixed pre q post :
      length (gparams g) = length (dparams d) -> gmods g = [] -> ~ In (gname g) st ->
      length (gqubits g) = length formals ->
      gqubits g = pre ++ q :: post -> all_fixed pre -> (forall n, q <> QFixed n) ->
      InvErr st g d formals (ENonFixed q).

  (** What [DefGateSequence::try_new] guarantees of every sequence definition: each qubit of each
      body element is a variable that is one of the formal qubits. *)
  Definition WFdefs : Prop :=
    forall d formals body, In d defs -> dspec d = SSeq formals body ->
      Forall (fun b => Forall (fun q => exists v, q = QVar v /\ In v formals) (gqubits b)) body.

  Lemma Invocation_fun g d formals body d' formals' body' :
    Invocation g d formals body -> Invocation g d' formals' body' ->
    d = d' /\ formals = formals' /\ body = body'.
  Proof.
    intros [H1 [H2 _]] [G1 [G2 _]]. rewrite H1 in G1. injection G1 as <-.
    rewrite H2 in G2. injection G2 as <- <-. auto.
  Qed.

  Lemma seq_expand_ok g d formals body body' :
    length (gparams g) = length (dparams d) ->
    (seq_expand formals body (combine (dparams d) (gparams g)) (gqubits g) = Ok body' <->
     length (gqubits g) = length formals /\ all_fixed (gqubits g) /\
     Forall2 (GSub (dparams d) (gparams g) formals (gqubits g)) body body').
  Proof.
    intros Hp. unfold seq_expand.
    destruct (Nat.eqb_spec (length (gqubits g)) (length formals)) as [Hq|Hq]; cbn [negb].
    - split.
      + intros H. destruct (map_res fixed_arg (gqubits g)) as [fixed|] eqn:E; [|discriminate].
        destruct (fixed_args_ok _ _ E) as [Hm Hf]. rewrite Hm in H.
        repeat split; auto.
        eapply map_res_ok; [| exact H]. intros b b' _ Hb.
        apply subst_gate_GSub in Hb; auto.
      + intros [_ [Hf H]]. destruct (fixed_args_complete _ Hf) as [fixed [E Hm]].
        rewrite E, Hm. eapply map_res_complete; [| exact H].
        intros b b' _ Hb. apply subst_gate_GSub; auto.
    - split; [discriminate|]. intros [H _]. congruence.
  Qed.

  Lemma seq_expand_err g d formals body e :
    In d defs -> dspec d = SSeq formals body -> WFdefs ->
    length (gparams g) = length (dparams d) ->
    (seq_expand formals body (combine (dparams d) (gparams g)) (gqubits g) = Err e <->
     (length (gqubits g) <> length formals /\
      e = EQubitCount (length formals) (length (gqubits g))) \/
     (length (gqubits g) = length formals /\
      exists pre q post, gqubits g = pre ++ q :: post /\ all_fixed pre /\
                         (forall n, q <> QFixed n) /\ e = ENonFixed q)).
  Proof.
    intros Hin Hspec WF Hp. unfold seq_expand.
    destruct (Nat.eqb_spec (length (gqubits g)) (length formals)) as [Hq|Hq]; cbn [negb].
    - destruct (map_res fixed_arg (gqubits g)) as [fixed|e'] eqn:E.
      + (* all qubits fixed: a validated body cannot fail *)
        destruct (fixed_args_ok _ _ E) as [Hm Hf]. rewrite Hm. split.
        * intros H. exfalso. apply map_res_err in H.
          destruct H as [pre [b [post [ys [Hb [_ Hx]]]]]].
          pose proof (WF d formals body Hin Hspec) as Hwf. rewrite Hb in Hwf.
          apply Forall_app in Hwf. destruct Hwf as [_ Hwf]. inversion Hwf as [|? ? Hbq _]; subst.
          unfold subst_gate in Hx.
          destruct (map_res (subst_qubit (combine formals (gqubits g))) (gqubits b)) eqn:Eq;
            [discriminate|].
          apply map_res_err in Eq. destruct Eq as [pre' [q [post' [ys' [Hq' [_ Hx']]]]]].
          rewrite Hq' in Hbq. apply Forall_app in Hbq. destruct Hbq as [_ Hbq].
          inversion Hbq as [|? ? [v [-> Hv]] _]; subst. cbn in Hx'.
          destruct (get_last v (combine formals (gqubits g))) eqn:G; [discriminate|].
          apply get_last_none in G; auto.
        * intros [[H _]|[_ [pre [q [post [H1 [H2 [H3 _]]]]]]]]; [congruence|]. exfalso.
          rewrite H1 in Hf. apply Forall_app in Hf. destruct Hf as [_ Hf].
          inversion Hf as [|? ? [n Hn] _]; subst. now apply (H3 n).
      + apply fixed_args_err in E. split.
        * intros H. injection H as <-. right. split; auto.
        * intros [[H _]|[_ H]]; [congruence|]. f_equal.
          destruct E as [pre [q [post [E1 [E2 [E3 ->]]]]]].
          destruct H as [pre' [q' [post' [H1 [H2 [H3 ->]]]]]].
          (* the first non-fixed qubit is unique *)
          f_equal. rewrite E1 in H1. clear - E2 E3 H2 H3 H1.
          revert pre' H1 H2. induction pre as [|a pre IH]; intros [|a' pre'] H1 H2; cbn in H1.
          -- now injection H1.
          -- injection H1 as -> _. inversion H2 as [|? ? [n Hn] _]; subst. now destruct (E3 n).
          -- injection H1 as -> _. inversion E2 as [|? ? [n Hn] _]; subst. now destruct (H3 n).
          -- injection H1 as -> H1. inversion E2; subst. inversion H2; subst. eauto.
    - split.
      + intros H. injection H as <-. left. auto.
      + intros [[_ ->]|[H _]]; [reflexivity | congruence].
  Qed.

  Lemma from_instr_other st k : from_instr defs sel st (IOther k) = Ok None.
  Proof. reflexivity. Qed.

  Lemma from_instr_none st i : from_instr defs sel st i = Ok None <-> Untouched i.
  Proof.
    destruct i as [g|k]; cbn [from_instr Untouched]; [|tauto].
    unfold Invocation.
    destruct (find_def defs (gname g)) as [d|] eqn:Ef.
    2:{ split; auto. intros _ d f b [H _]. discriminate. }
    destruct (dspec d) as [| | |formals body] eqn:Es;
      try (split; auto; intros _ d' f b [H [H' _]]; injection H as <-; congruence).
    destruct (sel (gname g)) eqn:Esel.
    2:{ split; auto. intros _ d' f b [_ [_ H]]. discriminate. }
    split.
    - intros H. exfalso.
      destruct (negb (length (dparams d) =? length (gparams g))); [discriminate|].
      destruct (gmods g); [|discriminate].
      destruct (memN (dname d) st); [discriminate|].
      destruct (seq_expand formals body (combine (dparams d) (gparams g)) (gqubits g));
        discriminate.
    - intros H. exfalso. apply (H d formals body). auto.
  Qed.

  Lemma from_instr_some st g b nm :
    from_instr defs sel st (IGate g) = Ok (Some (b, nm)) <->
    exists d formals body body',
      Invocation g d formals body /\ Instantiates g d formals body body' /\
      ~ In (gname g) st /\ b = map IGate body' /\ nm = gname g.
  Proof.
    cbn [from_instr]. unfold Invocation, Instantiates. split.
    - destruct (find_def defs (gname g)) as [d|] eqn:Ef; [|discriminate].
      destruct (find_def_some _ _ _ Ef) as [Hn _].
      destruct (dspec d) as [| | |formals body] eqn:Es; try discriminate.
      destruct (sel (gname g)) eqn:Esel; [|discriminate].
      destruct (Nat.eqb_spec (length (dparams d)) (length (gparams g))) as [Hp|Hp];
        cbn [negb]; [|discriminate].
      destruct (gmods g) eqn:Em; [|discriminate].
      destruct (memN (dname d) st) eqn:Emem; [discriminate|].
      destruct (seq_expand formals body (combine (dparams d) (gparams g)) (gqubits g))
        as [body'|] eqn:Ex; [|discriminate].
      intros H. injection H as <- <-.
      apply seq_expand_ok in Ex; auto. destruct Ex as [X1 [X2 X3]].
      apply memN_false in Emem. rewrite Hn in Emem.
      exists d, formals, body, body'. split; [|split; [|split; [|split]]]; auto.
    - intros [d [formals [body [body' [[H1 [H2 H3]] [[I1 [I2 [I3 [I4 I5]]]] [Hst [-> ->]]]]]]]].
      rewrite H1, H2, H3. destruct (find_def_some _ _ _ H1) as [Hn _].
      rewrite I1, Nat.eqb_refl. cbn [negb]. rewrite I2.
      assert (Hm : memN (dname d) st = false) by (apply memN_false; now rewrite Hn).
      rewrite Hm.
      assert (Hx : seq_expand formals body (combine (dparams d) (gparams g)) (gqubits g)
                   = Ok body') by (apply seq_expand_ok; auto).
      rewrite Hx. now rewrite Hn.
  Qed.

  Lemma from_instr_err st g e :
    WFdefs ->
    (from_instr defs sel st (IGate g) = Err e <->
     exists d formals body, Invocation g d formals body /\ InvErr st g d formals e).
  Proof.
    intros WF. cbn [from_instr]. unfold Invocation. split.
    - destruct (find_def defs (gname g)) as [d|] eqn:Ef; [|discriminate].
      destruct (find_def_some _ _ _ Ef) as [Hn Hin].
      destruct (dspec d) as [| | |formals body] eqn:Es; try discriminate.
      destruct (sel (gname g)) eqn:Esel; [|discriminate].
      intros H. exists d, formals, body. split; auto.
      destruct (Nat.eqb_spec (length (dparams d)) (length (gparams g))) as [Hp|Hp];
        cbn [negb] in H.
      2:{ injection H as <-. apply IE_params. congruence. }
      destruct (gmods g) eqn:Em.
      2:{ injection H as <-. rewrite <- Em. apply IE_mods; congruence. }
      destruct (memN (dname d) st) eqn:Emem.
      { injection H as <-. apply IE_cycle; auto. rewrite <- Hn. now apply memN_In. }
      apply memN_false in Emem. rewrite Hn in Emem.
      destruct (seq_expand formals body (combine (dparams d) (gparams g)) (gqubits g))
        as [body'|e'] eqn:Ex; [discriminate|].
      injection H as <-.
      apply (seq_expand_err g d formals body e' Hin Es WF (eq_sym Hp)) in Ex.
      destruct Ex as [[X1 ->]|[X1 [pre [q [post [X2 [X3 [X4 ->]]]]]]]].
      + apply IE_qcount; auto.
      + eapply IE_nonfixed; eauto.
    - intros [d [formals [body [[H1 [H2 H3]] HE]]]].
      rewrite H1, H2, H3. destruct (find_def_some _ _ _ H1) as [Hn Hin].
      inversion HE as [Hp | Hp Hm | Hp Hm Hc | Hp Hm Hc Hq | pre q post Hp Hm Hc Hq Hs Hf Hnf];
        subst.
      + destruct (Nat.eqb_spec (length (dparams d)) (length (gparams g))); [congruence|].
        reflexivity.
      + rewrite Hp, Nat.eqb_refl. cbn [negb]. destruct (gmods g); [congruence|reflexivity].
      + rewrite Hp, Nat.eqb_refl. cbn [negb]. rewrite Hm.
        assert (Hx : memN (dname d) st = true) by (apply memN_In; now rewrite Hn).
        now rewrite Hx.
      + rewrite Hp, Nat.eqb_refl. cbn [negb]. rewrite Hm.
        assert (Hx : memN (dname d) st = false) by (apply memN_false; now rewrite Hn).
        rewrite Hx.
        assert (Hy : seq_expand formals body (combine (dparams d) (gparams g)) (gqubits g)
                     = Err (EQubitCount (length formals) (length (gqubits g)))).
        { apply (seq_expand_err g d formals body _ Hin H2 WF Hp). left. auto. }
        now rewrite Hy.
      + rewrite Hp, Nat.eqb_refl. cbn [negb]. rewrite Hm.
        assert (Hx : memN (dname d) st = false) by (apply memN_false; now rewrite Hn).
        rewrite Hx.
        assert (Hy : seq_expand formals body (combine (dparams d) (gparams g)) (gqubits g)
                     = Err (ENonFixed q)).
        { apply (seq_expand_err g d formals body _ Hin H2 WF Hp). right. split; auto.
          exists pre, q, post. auto. }
        now rewrite Hy.
  Qed.
End Spec.

(** * The expansion relation *)

Section Expands.
  Variable defs : list gdef.
  Variable sel : name -> bool.

  (** [SeqExpands st l out]: [out] is [l] with every selected invocation of a sequence gate
      replaced by its instantiated body, recursively; [st] is the list of sequence names being
      expanded around [l] (an invocation of one of them is a cycle, not an expansion). *)
  Inductive SeqExpands : list name -> list instr -> list instr -> Prop :=
  | SE_nil st : SeqExpands st [] []
  | SE_keep st i t t' :
      Untouched defs sel i -> SeqExpands st t t' -> SeqExpands st (i :: t) (i :: t')
  | SE_expand st g d formals body body' r1 t t' :
      Invocation defs sel g d formals body -> Instantiates g d formals body body' ->
      ~ In (gname g) st ->
      SeqExpands (st ++ [gname g]) (map IGate body') r1 -> SeqExpands st t t' ->
      SeqExpands st (IGate g :: t) (r1 ++ t').

  (** The same without the stack: plain recursive substitution. *)
  Inductive Expands : list instr -> list instr -> Prop :=
  | X_nil : Expands [] []
  | X_keep i t t' : Untouched defs sel i -> Expands t t' -> Expands (i :: t) (i :: t')
  | X_expand g d formals body body' r1 t t' :
      Invocation defs sel g d formals body -> Instantiates g d formals body body' ->
      Expands (map IGate body') r1 -> Expands t t' -> Expands (IGate g :: t) (r1 ++ t').

  Lemma SeqExpands_Expands st l out : SeqExpands st l out -> Expands l out.
  Proof. induction 1; econstructor; eauto. Qed.

  (** [SeqFails st l e]: expanding [l] under [st] reports [e]: the first instruction (in
      depth-first, left-to-right order) whose invocation is erroneous, or re-enters [st]. *)
  Inductive SeqFails : list name -> list instr -> err -> Prop :=
  | SF_inv st g d formals body t e :
      Invocation defs sel g d formals body -> InvErr st g d formals e ->
      SeqFails st (IGate g :: t) e
  | SF_nested st g d formals body body' t e :
      Invocation defs sel g d formals body -> Instantiates g d formals body body' ->
      ~ In (gname g) st ->
      SeqFails (st ++ [gname g]) (map IGate body') e -> SeqFails st (IGate g :: t) e
  | SF_later st i r t e :
      SeqExpands st [i] r -> SeqFails st t e -> SeqFails st (i :: t) e.

  Lemma push_fresh n st : ~ In n st -> push n st = st ++ [n].
  Proof. intros H. unfold push. apply memN_false in H. now rewrite H. Qed.

  (** ** Soundness: a successful run is an expansion (any fuel, any stack) *)
  Lemma expand_sound fuel : forall st l out,
      expand defs sel fuel st l = Ok out -> SeqExpands st l out.
  Proof.
    induction fuel as [|f IHf]; intros st l out H; cbn [expand] in H; [discriminate|].
    revert out H. induction l as [|i t IHt]; intros out H; cbn [expand_list] in H.
    - injection H as <-. constructor.
    - destruct (from_instr defs sel st i) as [[[b nm]|]|e] eqn:Ei; [| |discriminate].
      + destruct i as [g|k]; [|cbn in Ei; discriminate].
        apply from_instr_some in Ei.
        destruct Ei as [d [formals [body [body' [Hinv [Hins [Hst [-> ->]]]]]]]].
        rewrite (push_fresh _ _ Hst) in H.
        destruct (expand defs sel f (st ++ [gname g]) (map IGate body')) as [r1|] eqn:E1;
          [|discriminate].
        destruct (expand_list defs sel (expand defs sel f) st t) as [r2|] eqn:E2; [|discriminate].
        injection H as <-. eapply SE_expand; eauto.
      + apply from_instr_none in Ei.
        destruct (expand_list defs sel (expand defs sel f) st t) as [r2|] eqn:E2; [|discriminate].
        injection H as <-. apply SE_keep; auto.
  Qed.

  (** ** The stack invariant and the fuel bound *)

  Definition StackOK (st : list name) : Prop := NoDup st /\ incl st (seq_names defs).

  Lemma Invocation_seq_name g d formals body :
    Invocation defs sel g d formals body -> In (gname g) (seq_names defs).
  Proof.
    intros [H1 [H2 _]]. destruct (find_def_some _ _ _ H1) as [Hn Hin].
    unfold seq_names. rewrite <- Hn. apply in_map. apply filter_In. split; auto.
    unfold is_seq. now rewrite H2.
  Qed.

  Lemma NoDup_app_snoc {A} (l : list A) x : NoDup l -> ~ In x l -> NoDup (l ++ [x]).
  Proof.
    induction 1 as [|a l Ha _ IH]; intros Hx; cbn.
    - constructor; [intros [] | constructor].
    - constructor.
      + intros Hin. apply in_app_or in Hin. destruct Hin as [Hin|[<-|[]]]; auto.
        apply Hx. now left.
      + apply IH. intros Hin. apply Hx. now right.
  Qed.

  Lemma StackOK_push st g d formals body :
    StackOK st -> Invocation defs sel g d formals body -> ~ In (gname g) st ->
    StackOK (st ++ [gname g]).
  Proof.
    intros [Hnd Hincl] Hinv Hst. split.
    - apply NoDup_app_snoc; auto.
    - intros x Hx. apply in_app_or in Hx. destruct Hx as [Hx|[<-|[]]]; auto.
      eapply Invocation_seq_name; eauto.
  Qed.

  Lemma StackOK_length st : StackOK st -> length st <= seq_count defs.
  Proof.
    intros [Hnd Hincl]. unfold seq_count.
    replace (length (filter is_seq defs)) with (length (seq_names defs))
      by (unfold seq_names; apply map_length).
    now apply NoDup_incl_length.
  Qed.

  Lemma StackOK_nil : StackOK [].
  Proof. split; [constructor | intros x []]. Qed.

  (** ** Termination: with enough fuel the result is never [OutOfFuel] *)
  Lemma expand_fuel fuel : forall st l,
      StackOK st -> seq_count defs < fuel + length st ->
      expand defs sel fuel st l <> Err OutOfFuel.
  Proof.
    induction fuel as [|f IHf]; intros st l Hst Hf.
    - exfalso. apply StackOK_length in Hst. lia.
    - cbn [expand]. induction l as [|i t IHt]; cbn [expand_list]; [discriminate|].
      destruct (from_instr defs sel st i) as [[[b nm]|]|e] eqn:Ei.
      + destruct i as [g|k]; [|cbn in Ei; discriminate].
        apply from_instr_some in Ei.
        destruct Ei as [d [formals [body [body' [Hinv [Hins [Hn [-> ->]]]]]]]].
        rewrite (push_fresh _ _ Hn).
        destruct (expand defs sel f (st ++ [gname g]) (map IGate body')) as [r1|e1] eqn:E1.
        * destruct (expand_list defs sel (expand defs sel f) st t); [discriminate|].
          intros H. apply IHt. exact H.
        * intros H. injection H as ->.
          apply (IHf (st ++ [gname g]) (map IGate body')); auto.
          -- eapply StackOK_push; eauto.
          -- rewrite app_length. cbn. lia.
      + destruct (expand_list defs sel (expand defs sel f) st t); [discriminate|].
        intros H. apply IHt. exact H.
      + intros H. injection H as ->.
        destruct i as [g|k]; [|cbn in Ei; discriminate].
        cbn [from_instr] in Ei.
        destruct (find_def defs (gname g)) as [d|]; [|discriminate].
        destruct (dspec d); try discriminate.
        destruct (sel (gname g)); [|discriminate].
        destruct (negb (length (dparams d) =? length (gparams g))); [discriminate|].
        destruct (gmods g); [|discriminate].
        destruct (memN (dname d) st); [discriminate|].
        unfold seq_expand in Ei.
        destruct (negb (length (gqubits g) =? length formals)); [discriminate|].
        destruct (map_res fixed_arg (gqubits g)) eqn:Ef.
        * destruct (map_res (subst_gate (combine (dparams d) (gparams g))
                                        (combine formals (map QFixed a))) body) eqn:Eb;
            [discriminate|].
          injection Ei as ->. apply map_res_err in Eb.
          destruct Eb as [pre [x [post [ys [_ [_ Hx]]]]]]. unfold subst_gate in Hx.
          destruct (map_res (subst_qubit (combine formals (map QFixed a))) (gqubits x)) eqn:Eq;
            [discriminate|].
          injection Hx as ->. apply map_res_err in Eq.
          destruct Eq as [pre' [q [post' [ys' [_ [_ Hq]]]]]]. unfold subst_qubit in Hq.
          destruct q; try discriminate.
          destruct (get_last v (combine formals (map QFixed a))); discriminate.
        * injection Ei as ->. apply map_res_err in Ef.
          destruct Ef as [pre [x [post [ys [_ [_ Hx]]]]]]. destruct x; discriminate.
  Qed.

  (** ** Completeness: every expansion is computed (with enough fuel) *)
  Lemma expand_complete st l out :
    SeqExpands st l out ->
    forall fuel, StackOK st -> seq_count defs < fuel + length st ->
                 expand defs sel fuel st l = Ok out.
  Proof.
    induction 1 as [st | st i t t' Hu _ IH | st g d formals body body' r1 t t' Hinv Hins Hn _ IH1 _ IH2];
      intros fuel Hst Hf.
    - destruct fuel as [|f]; [apply StackOK_length in Hst; lia | reflexivity].
    - specialize (IH fuel Hst Hf).
      destruct fuel as [|f]; [apply StackOK_length in Hst; lia|].
      cbn [expand] in *. cbn [expand_list].
      apply (from_instr_none defs sel st) in Hu. rewrite Hu. now rewrite IH.
    - specialize (IH2 fuel Hst Hf).
      destruct fuel as [|f]; [apply StackOK_length in Hst; lia|].
      cbn [expand] in *. cbn [expand_list].
      assert (Hfi : from_instr defs sel st (IGate g) = Ok (Some (map IGate body', gname g))).
      { apply from_instr_some. exists d, formals, body, body'. auto. }
      rewrite Hfi, (push_fresh _ _ Hn).
      rewrite (IH1 f).
      + now rewrite IH2.
      + eapply StackOK_push; eauto.
      + rewrite app_length. cbn. lia.
  Qed.

  Lemma SeqExpands_fun st l out out' :
    StackOK st -> SeqExpands st l out -> SeqExpands st l out' -> out = out'.
  Proof.
    intros Hst H1 H2.
    pose proof (expand_complete _ _ _ H1 (S (seq_count defs)) Hst ltac:(lia)) as E1.
    pose proof (expand_complete _ _ _ H2 (S (seq_count defs)) Hst ltac:(lia)) as E2.
    congruence.
  Qed.

  (** ** Errors *)
  Lemma expand_err_sound (WF : WFdefs defs) fuel : forall st l e,
      expand defs sel fuel st l = Err e -> e <> OutOfFuel -> SeqFails st l e.
  Proof.
    induction fuel as [|f IHf]; intros st l e H Hne; cbn [expand] in H.
    - injection H as <-. congruence.
    - revert H. induction l as [|i t IHt]; intros H; cbn [expand_list] in H; [discriminate|].
      destruct (from_instr defs sel st i) as [[[b nm]|]|e'] eqn:Ei.
      + destruct i as [g|k]; [|cbn in Ei; discriminate].
        pose proof Ei as Ei'. apply from_instr_some in Ei.
        destruct Ei as [d [formals [body [body' [Hinv [Hins [Hn [-> ->]]]]]]]].
        rewrite (push_fresh _ _ Hn) in H.
        destruct (expand defs sel f (st ++ [gname g]) (map IGate body')) as [r1|e1] eqn:E1.
        * destruct (expand_list defs sel (expand defs sel f) st t) eqn:E2; [discriminate|].
          injection H as ->.
          assert (Hx : SeqExpands st [IGate g] (r1 ++ [])).
          { eapply SE_expand; eauto; [eapply expand_sound; eauto | constructor]. }
          rewrite app_nil_r in Hx.
          eapply SF_later; [exact Hx | now apply IHt].
        * injection H as ->. eapply SF_nested; eauto.
      + apply from_instr_none in Ei.
        destruct (expand_list defs sel (expand defs sel f) st t) eqn:E2; [discriminate|].
        injection H as ->. eapply SF_later; [| now apply IHt].
        apply SE_keep; auto. constructor.
      + injection H as ->. destruct i as [g|k]; [|cbn in Ei; discriminate].
        apply from_instr_err in Ei; auto. destruct Ei as [d [formals [body [Hinv HE]]]].
        eapply SF_inv; eauto.
  Qed.

  Lemma expand_err_complete (WF : WFdefs defs) st l e :
    SeqFails st l e ->
    forall fuel, StackOK st -> seq_count defs < fuel + length st ->
                 expand defs sel fuel st l = Err e.
  Proof.
    induction 1 as [st g d formals body t e Hinv HE
                   | st g d formals body body' t e Hinv Hins Hn _ IH
                   | st i r t e Hx _ IH]; intros fuel Hst Hf.
    - destruct fuel as [|f]; [apply StackOK_length in Hst; lia|].
      cbn [expand expand_list].
      assert (Hfi : from_instr defs sel st (IGate g) = Err e).
      { apply from_instr_err; auto. exists d, formals, body. auto. }
      now rewrite Hfi.
    - destruct fuel as [|f]; [apply StackOK_length in Hst; lia|].
      cbn [expand expand_list].
      assert (Hfi : from_instr defs sel st (IGate g) = Ok (Some (map IGate body', gname g))).
      { apply from_instr_some. exists d, formals, body, body'. auto. }
      rewrite Hfi, (push_fresh _ _ Hn). rewrite (IH f); auto.
      + eapply StackOK_push; eauto.
      + rewrite app_length. cbn. lia.
    - specialize (IH fuel Hst Hf).
      pose proof (expand_complete _ _ _ Hx fuel Hst Hf) as E1.
      destruct fuel as [|f]; [apply StackOK_length in Hst; lia|].
      cbn [expand] in *. cbn [expand_list] in *.
      destruct (from_instr defs sel st i) as [[[b nm]|]|e'] eqn:Ei; [| |discriminate].
      + destruct (expand defs sel f (push nm st) b); [|discriminate]. now rewrite IH.
      + now rewrite IH.
  Qed.

  Lemma SeqFails_not_fuel st l e : SeqFails st l e -> e <> OutOfFuel.
  Proof.
    induction 1 as [st g d formals body t e Hinv HE | |]; auto.
    inversion HE; discriminate.
  Qed.
End Expands.

(** * Kept definitions: reachability in the "body mentions" graph *)

(** [edge defs a b]: the sequence definition named [a] has a body element whose gate name [b] is
    the name of a sequence definition. *)
Definition edge (defs : list gdef) (a b : name) : Prop :=
  exists d formals body g,
    In d defs /\ dname d = a /\ dspec d = SSeq formals body /\ In g body /\ gname g = b /\
    In b (seq_names defs).

Lemma succs_edge defs a b : In b (succs defs a) <-> edge defs a b.
Proof.
  unfold succs, edge. rewrite in_flat_map. split.
  - intros [d [Hd Hb]]. destruct (N.eqb_spec (dname d) a) as [Ha|Ha]; [|destruct Hb].
    destruct (dspec d) as [| | |formals body] eqn:Es; try destruct Hb.
    apply filter_In in Hb. destruct Hb as [Hb Hm]. apply in_map_iff in Hb.
    destruct Hb as [g [Hg Hin]]. apply memN_In in Hm.
    exists d, formals, body, g. repeat split; auto.
  - intros [d [formals [body [g [Hd [Ha [Es [Hg [Hb Hs]]]]]]]]]. exists d. split; auto.
    rewrite <- Ha, N.eqb_refl, Es. apply filter_In. split.
    + apply in_map_iff. exists g. auto.
    + now apply memN_In.
Qed.

Lemma add_new_In xs : forall s x, In x (add_new xs s) <-> In x xs \/ In x s.
Proof.
  induction xs as [|a xs IH]; intros s x; cbn [add_new].
  - cbn. tauto.
  - destruct (memN a s) eqn:E.
    + rewrite IH. apply memN_In in E. cbn. split; [tauto|]. intros [[<-|H]|H]; auto.
    + rewrite IH, in_app_iff. cbn. tauto.
Qed.

Lemma add_new_NoDup xs : forall s, NoDup s -> NoDup (add_new xs s).
Proof.
  induction xs as [|a xs IH]; intros s H; cbn [add_new]; auto.
  destruct (memN a s) eqn:E; auto.
  apply IH. apply NoDup_app_snoc; auto. now apply memN_false.
Qed.

Lemma add_new_length xs : forall s, length s <= length (add_new xs s).
Proof.
  induction xs as [|a xs IH]; intros s; cbn [add_new]; auto.
  destruct (memN a s); auto.
  specialize (IH (s ++ [a])). rewrite app_length in IH. cbn in IH. lia.
Qed.

Lemma add_new_same xs : forall s, length (add_new xs s) = length s -> forall x, In x xs -> In x s.
Proof.
  induction xs as [|a xs IH]; intros s H x Hx; [destruct Hx|].
  cbn [add_new] in H. destruct (memN a s) eqn:E.
  - destruct Hx as [<-|Hx]; [now apply memN_In | now apply IH].
  - exfalso. pose proof (add_new_length xs (s ++ [a])) as Hl.
    rewrite app_length in Hl. cbn in Hl. lia.
Qed.

Section Closure.
  Variable defs : list gdef.
  Let nodes := seq_names defs.
  Let R := edge defs.

  Lemma step_In s y : In y (step defs s) <-> In y s \/ exists x, In x s /\ R x y.
  Proof.
    unfold step. rewrite add_new_In, in_flat_map. split.
    - intros [[x [Hx Hy]]|H]; auto. right. exists x. split; auto. now apply succs_edge.
    - intros [H|[x [Hx Hy]]]; auto. left. exists x. split; auto. now apply succs_edge.
  Qed.

  Lemma edge_target a b : R a b -> In b nodes.
  Proof. intros [d [f [bd [g H]]]]. tauto. Qed.

  Lemma closure_start fuel : forall s, incl s (closure defs fuel s).
  Proof.
    induction fuel as [|f IH]; intros s x Hx; cbn [closure]; auto.
    destruct (length (step defs s) =? length s); auto.
    apply IH. apply step_In. auto.
  Qed.

  Lemma closure_sound fuel : forall s y,
      In y (closure defs fuel s) -> exists x, In x s /\ clos_refl_trans name R x y.
  Proof.
    induction fuel as [|f IH]; intros s y Hy; cbn [closure] in Hy.
    - exists y. split; auto. apply rt_refl.
    - destruct (length (step defs s) =? length s).
      + exists y. split; auto. apply rt_refl.
      + apply IH in Hy. destruct Hy as [x [Hx Hxy]]. apply step_In in Hx.
        destruct Hx as [Hx|[w [Hw Hwx]]].
        * exists x. auto.
        * exists w. split; auto. eapply rt_trans; [apply rt_step; exact Hwx | exact Hxy].
  Qed.

  Lemma closure_closed fuel : forall s,
      NoDup s -> incl s nodes -> length nodes < fuel + length s ->
      forall x y, In x (closure defs fuel s) -> R x y -> In y (closure defs fuel s).
  Proof.
    induction fuel as [|f IH]; intros s Hnd Hincl Hf x y Hx Hxy.
    - exfalso. pose proof (NoDup_incl_length Hnd Hincl). lia.
    - cbn [closure] in *.
      destruct (Nat.eqb_spec (length (step defs s)) (length s)) as [He|He].
      + unfold step in He. apply (add_new_same _ _ He). apply in_flat_map.
        exists x. split; auto. now apply succs_edge.
      + apply (IH (step defs s)) with (x := x); auto.
        * now apply add_new_NoDup.
        * intros z Hz. apply step_In in Hz. destruct Hz as [Hz|[w [_ Hw]]]; auto.
          eapply edge_target; eauto.
        * pose proof (add_new_length (flat_map (succs defs) s) s). unfold step in *. lia.
  Qed.

  Lemma has_path_spec a b :
    In a nodes -> (has_path defs a b = true <-> clos_refl_trans name R a b).
  Proof.
    intros Ha. unfold has_path. rewrite memN_In. split.
    - intros H. apply closure_sound in H. destruct H as [x [[<-|[]] Hxy]]. exact Hxy.
    - intros H. apply clos_rt_rt1n in H.
      assert (Hstart : In a (closure defs (S (length (seq_names defs))) [a]))
        by (apply closure_start; now left).
      revert Hstart. generalize (closure_closed (S (length (seq_names defs))) [a]).
      intros Hc. assert (Hc' : forall x y, In x (closure defs (S (length (seq_names defs))) [a]) ->
                                           R x y -> In y (closure defs (S (length (seq_names defs))) [a])).
      { apply Hc.
        - constructor; [intros [] | constructor].
        - intros z [<-|[]]. exact Ha.
        - fold nodes. cbn. lia. }
      clear Hc. revert Hc'. generalize (closure defs (S (length (seq_names defs))) [a]).
      intros C Hclosed Hstart. clear Ha.
      induction H as [x | x y z Hxy _ IH]; auto.
      apply IH. eapply Hclosed; eauto.
  Qed.
End Closure.

(** [Kept defs sel d]: non-sequence definitions always; a sequence definition iff the filter
    rejects it or it is reachable (reflexively, transitively) from a rejected sequence definition. *)
Definition Kept (defs : list gdef) (sel : name -> bool) (d : gdef) : Prop :=
  is_seq d = false \/ sel (dname d) = false \/
  exists u, In u (seq_names defs) /\ sel u = false /\
            clos_refl_trans name (edge defs) u (dname d).

Lemma keep_b_spec defs sel d : keep_b defs sel d = true <-> Kept defs sel d.
Proof.
  unfold keep_b, Kept. destruct (is_seq d) eqn:Es.
  - rewrite orb_true_iff, negb_true_iff, existsb_exists. split.
    + intros [H|[u [Hu H]]]; auto. right. right.
      apply andb_true_iff in H. destruct H as [H1 H2]. apply negb_true_iff in H1.
      exists u. repeat split; auto. now apply (has_path_spec defs u (dname d) Hu).
    + intros [H|[H|[u [Hu [H1 H2]]]]]; [discriminate | auto |]. right.
      exists u. split; auto. rewrite H1. cbn. now apply (has_path_spec defs u (dname d) Hu).
  - split; auto.
Qed.

Lemma keep_spec defs sel d : In d (keep defs sel) <-> In d defs /\ Kept defs sel d.
Proof. unfold keep. rewrite filter_In, keep_b_spec. tauto. Qed.

(** The kept definitions are the original list with the others deleted (order preserved). *)
Lemma keep_order defs sel :
  exists f, keep defs sel = filter f defs /\ forall d, f d = true <-> Kept defs sel d.
Proof. exists (keep_b defs sel). split; [reflexivity | apply keep_b_spec]. Qed.

(** * The source map *)

Definition esrc (e : entry) : nat :=
  match e with EUnmod s _ => s | ERewr s _ _ _ _ => s end.

(** target range [lo, hi) of an entry *)
Definition espan (e : entry) : nat * nat :=
  match e with EUnmod _ t => (t, S t) | ERewr _ _ lo hi _ => (lo, hi) end.

(** consecutive entries cover [b, e) without gaps or overlaps, in order *)
Fixpoint tiles (b : nat) (es : list entry) (e : nat) : Prop :=
  match es with
  | [] => b = e
  | x :: t => fst (espan x) = b /\ b <= snd (espan x) /\ tiles (snd (espan x)) t e
  end.

Section entry_ind2.
  Variable P : entry -> Prop.
  Hypothesis HU : forall s t, P (EUnmod s t).
  Hypothesis HR : forall s nm lo hi nested, Forall P nested -> P (ERewr s nm lo hi nested).
  Fixpoint entry_ind2 (e : entry) : P e :=
    match e with
    | EUnmod s t => HU s t
    | ERewr s nm lo hi nested =>
        HR s nm lo hi nested
           ((fix go (l : list entry) : Forall P l :=
               match l with
               | [] => Forall_nil P
               | x :: t => Forall_cons x (entry_ind2 x) (go t)
               end) nested)
    end.
End entry_ind2.

Section Map.
  Variable defs : list gdef.
  Variable sel : name -> bool.

  (** [WFmap st l k b es out]: the entries [es] describe how the source instructions [l] (source
      indices from [k]) expand to exactly [out], placed at target offset [b]:
      one entry per source instruction, in order; an untouched instruction is copied and its entry
      points at the copy; a selected invocation is replaced by the expansion [out1] of its
      instantiated body, its entry carries the range [b, b + |out1|) and a nested map that
      describes, from index 0, how the instantiated body expands to [out1]. *)
  Inductive WFmap : list name -> list instr -> nat -> nat -> list entry -> list instr -> Prop :=
  | WF_nil st k b : WFmap st [] k b [] []
  | WF_unmod st i t k b es out :
      Untouched defs sel i -> WFmap st t (S k) (S b) es out ->
      WFmap st (i :: t) k b (EUnmod k b :: es) (i :: out)
  | WF_rewr st g d formals body body' t k b nested es out1 out2 :
      Invocation defs sel g d formals body -> Instantiates g d formals body body' ->
      ~ In (gname g) st ->
      WFmap (st ++ [gname g]) (map IGate body') 0 0 nested out1 ->
      WFmap st t (S k) (b + length out1) es out2 ->
      WFmap st (IGate g :: t) k b
            (ERewr k (gname g) b (b + length out1) nested :: es) (out1 ++ out2).

  (** ** Both entry points compute the same program *)
  Lemma expand_sm_list_fst recsm rec :
    (forall st l, match recsm st l with
                  | Ok (r, _) => rec st l = Ok r
                  | Err e => rec st l = Err e
                  end) ->
    forall st l k tl,
      match expand_sm_list defs sel recsm st l k tl with
      | Ok (r, _) => expand_list defs sel rec st l = Ok r
      | Err e => expand_list defs sel rec st l = Err e
      end.
  Proof.
    intros Hrec st l. induction l as [|i t IH]; intros k tl; cbn [expand_sm_list expand_list]; auto.
    destruct (from_instr defs sel st i) as [[[b nm]|]|e]; auto.
    - specialize (Hrec (push nm st) b).
      destruct (recsm (push nm st) b) as [[r1 m1]|e1]; rewrite Hrec; auto.
      specialize (IH (S k) (tl + length r1)).
      destruct (expand_sm_list defs sel recsm st t (S k) (tl + length r1)) as [[r2 m2]|e2];
        now rewrite IH.
    - specialize (IH (S k) (S tl)).
      destruct (expand_sm_list defs sel recsm st t (S k) (S tl)) as [[r2 m2]|e2]; now rewrite IH.
  Qed.

  Lemma expand_sm_fst fuel : forall st l,
      match expand_sm defs sel fuel st l with
      | Ok (r, _) => expand defs sel fuel st l = Ok r
      | Err e => expand defs sel fuel st l = Err e
      end.
  Proof.
    induction fuel as [|f IH]; intros st l; cbn [expand_sm expand]; auto.
    apply expand_sm_list_fst. exact IH.
  Qed.

  (** ** The model's map is well formed *)
  Lemma expand_sm_WF fuel : forall st l out m,
      expand_sm defs sel fuel st l = Ok (out, m) -> WFmap st l 0 0 m out.
  Proof.
    induction fuel as [|f IHf]; intros st l out m H; cbn [expand_sm] in H; [discriminate|].
    revert H. generalize 0 at 1 3. generalize 0.
    revert out m. induction l as [|i t IHt]; intros out m b k H; cbn [expand_sm_list] in H.
    - injection H as <- <-. constructor.
    - destruct (from_instr defs sel st i) as [[[bd nm]|]|e] eqn:Ei; [| |discriminate].
      + destruct i as [g|x]; [|cbn in Ei; discriminate].
        apply from_instr_some in Ei.
        destruct Ei as [d [formals [body [body' [Hinv [Hins [Hn [-> ->]]]]]]]].
        rewrite (push_fresh _ _ Hn) in H.
        destruct (expand_sm defs sel f (st ++ [gname g]) (map IGate body')) as [[r1 m1]|] eqn:E1;
          [|discriminate].
        destruct (expand_sm_list defs sel (expand_sm defs sel f) st t (S k) (b + length r1))
          as [[r2 m2]|] eqn:E2; [|discriminate].
        injection H as <- <-. eapply WF_rewr; eauto.
      + apply from_instr_none in Ei.
        destruct (expand_sm_list defs sel (expand_sm defs sel f) st t (S k) (S b))
          as [[r2 m2]|] eqn:E2; [|discriminate].
        injection H as <- <-. apply WF_unmod; auto.
  Qed.

  (** ** What a well-formed map says *)
  Lemma WFmap_expands st l k b es out : WFmap st l k b es out -> SeqExpands defs sel st l out.
  Proof. induction 1; econstructor; eauto. Qed.

  Lemma WFmap_sources st l k b es out : WFmap st l k b es out -> map esrc es = seq k (length l).
  Proof. induction 1; cbn; f_equal; auto. Qed.

  Lemma WFmap_tiles st l k b es out : WFmap st l k b es out -> tiles b es (b + length out).
  Proof.
    induction 1 as [st k b | st i t k b es out _ _ IH | st g d formals body body' t k b nested es out1 out2 _ _ _ _ _ _ IH];
      cbn [tiles espan fst snd length].
    - lia.
    - repeat split; [lia|]. now replace (b + S (length out)) with (S b + length out) by lia.
    - repeat split; [lia|]. rewrite app_length. now rewrite Nat.add_assoc.
  Qed.

  Lemma firstn_app_exact {A} (l r : list A) : firstn (length l) (l ++ r) = l.
  Proof. rewrite firstn_app, Nat.sub_diag, firstn_all. cbn. apply app_nil_r. Qed.

  Lemma skipn_app_ge {A} n (l r : list A) :
    length l <= n -> skipn n (l ++ r) = skipn (n - length l) r.
  Proof. intros H. rewrite skipn_app, skipn_all2; auto. Qed.

  Lemma WFmap_unmod st l k b es out :
    WFmap st l k b es out -> forall s t, In (EUnmod s t) es ->
    k <= s /\ b <= t /\
    exists i, nth_error l (s - k) = Some i /\ nth_error out (t - b) = Some i /\
              Untouched defs sel i.
  Proof.
    induction 1 as [st k b | st i t k b es out Hu _ IH | st g d formals body body' t k b nested es out1 out2 _ _ _ _ _ _ IH];
      intros s tg Hin.
    - destruct Hin.
    - destruct Hin as [Heq|Hin].
      + injection Heq as <- <-. repeat split; auto. exists i. rewrite !Nat.sub_diag. auto.
      + destruct (IH _ _ Hin) as [H1 [H2 [j [H3 [H4 H5]]]]]. repeat split; try lia.
        exists j. replace (s - k) with (S (s - S k)) by lia.
        replace (tg - b) with (S (tg - S b)) by lia. auto.
    - destruct Hin as [Heq|Hin]; [discriminate|].
      destruct (IH _ _ Hin) as [H1 [H2 [j [H3 [H4 H5]]]]]. repeat split; try lia.
      exists j. replace (s - k) with (S (s - S k)) by lia. repeat split; auto.
      rewrite nth_error_app2 by lia. now replace (tg - b - length out1) with (tg - (b + length out1)) by lia.
  Qed.

  Ltac six := split; [|split; [|split; [|split; [|split]]]]; auto.

  Lemma WFmap_rewr st l k b es out :
    WFmap st l k b es out -> forall s nm lo hi nested, In (ERewr s nm lo hi nested) es ->
    k <= s /\ b <= lo /\ lo <= hi /\ hi <= b + length out /\
    exists g d formals body body',
      nth_error l (s - k) = Some (IGate g) /\ nm = gname g /\
      Invocation defs sel g d formals body /\ Instantiates g d formals body body' /\
      ~ In nm st /\
      WFmap (st ++ [nm]) (map IGate body') 0 0 nested (firstn (hi - lo) (skipn (lo - b) out)).
  Proof.
    induction 1 as [st k b | st i t k b es out Hu _ IH | st g d formals body body' t k b nested es out1 out2 Hinv Hins Hn Hnested _ _ IH];
      intros s nm lo hi nst Hin.
    - destruct Hin.
    - destruct Hin as [Heq|Hin]; [discriminate|].
      destruct (IH _ _ _ _ _ Hin) as [H1 [H2 [H3 [H4 [g [d [fs [bd [bd' [G1 [G2 [G3 [G4 [G5 G6]]]]]]]]]]]]]].
      cbn [length]. repeat split; try lia.
      exists g, d, fs, bd, bd'. replace (s - k) with (S (s - S k)) by lia.
      replace (lo - b) with (S (lo - S b)) by lia. six.
    - destruct Hin as [Heq|Hin].
      + injection Heq as <- <- <- <- <-. rewrite app_length. repeat split; try lia.
        exists g, d, formals, body, body'. rewrite !Nat.sub_diag.
        replace (b + length out1 - b) with (length out1) by lia.
        cbn [skipn]. rewrite firstn_app_exact. six.
      + destruct (IH _ _ _ _ _ Hin) as [H1 [H2 [H3 [H4 [g' [d' [fs [bd [bd' [G1 [G2 [G3 [G4 [G5 G6]]]]]]]]]]]]]].
        rewrite app_length. repeat split; try lia.
        exists g', d', fs, bd, bd'. replace (s - k) with (S (s - S k)) by lia.
        rewrite skipn_app_ge by lia.
        replace (lo - b - length out1) with (lo - (b + length out1)) by lia.
        six.
  Qed.

  (** ** The instance checker is sound *)
  Definition chk_entry_ok (e : entry) : Prop :=
    forall st i t k b es out b' out',
      chk_entry defs sel st e i k b out = Some (b', out') ->
      WFmap st t (S k) b' es out' -> WFmap st (i :: t) k b (e :: es) out.

  Lemma chk_list_sound es :
    Forall chk_entry_ok es ->
    forall st l k b out,
      chk_list (chk_entry defs sel st) es l k b out = true -> WFmap st l k b es out.
  Proof.
    induction 1 as [|e es He _ IH]; intros st l k b out H; destruct l as [|i t]; cbn in H;
      try discriminate.
    - destruct out; [constructor | discriminate].
    - destruct (chk_entry defs sel st e i k b out) as [[b' out']|] eqn:E; [|discriminate].
      eapply He; eauto.
  Qed.

  Lemma chk_entry_sound e : chk_entry_ok e.
  Proof.
    induction e as [s tg | s nm lo hi nested IH] using entry_ind2;
      intros st i t k b es out b' out' H Hrest; cbn [chk_entry] in H.
    - destruct (Nat.eqb_spec s k) as [->|]; [|discriminate].
      destruct (Nat.eqb_spec tg b) as [->|]; [|discriminate]. cbn [andb] in H.
      destruct (from_instr defs sel st i) as [[p|]|] eqn:Ei; try discriminate.
      destruct out as [|o out1]; [discriminate|].
      destruct (instr_eqb o i) eqn:Eo; [|discriminate].
      injection H as <- <-. apply instr_eqb_eq in Eo. subst o.
      apply WF_unmod; auto. now apply from_instr_none in Ei.
    - destruct (Nat.eqb_spec s k) as [->|]; [|discriminate].
      destruct (Nat.eqb_spec lo b) as [->|]; [|discriminate].
      destruct (Nat.leb_spec b hi) as [Hle|]; [|discriminate]. cbn [andb] in H.
      destruct (from_instr defs sel st i) as [[[bd nm']|]|] eqn:Ei; try discriminate.
      destruct (N.eqb_spec nm nm') as [<-|]; [|discriminate].
      destruct (Nat.leb_spec (hi - b) (length out)) as [Hlen|]; [|discriminate].
      cbn [andb] in H.
      destruct (chk_list (chk_entry defs sel (push nm st)) nested bd 0 0
                         (firstn (hi - b) out)) eqn:En; [|discriminate].
      injection H as <- <-.
      destruct i as [g|x]; [|cbn in Ei; discriminate].
      apply from_instr_some in Ei.
      destruct Ei as [d [formals [body [body' [Hinv [Hins [Hn [-> ->]]]]]]]].
      rewrite (push_fresh _ _ Hn) in En.
      apply (chk_list_sound nested IH) in En.
      rewrite <- (firstn_skipn (hi - b) out).
      assert (Hl : length (firstn (hi - b) out) = hi - b) by now apply firstn_length_le.
      replace hi with (b + length (firstn (hi - b) out)) at 1 by lia.
      eapply WF_rewr; eauto.
      replace (b + length (firstn (hi - b) out)) with hi by lia. exact Hrest.
  Qed.

  Lemma chk_map_sound st l k b es out :
    chk_map defs sel st l k b es out = true -> WFmap st l k b es out.
  Proof.
    unfold chk_map. apply chk_list_sound. apply Forall_forall. intros e _. apply chk_entry_sound.
  Qed.
End Map.

(** * The C20 instance checker is sound *)
Lemma chk_c20_sound defs sel l r :
  WFdefs defs -> chk_c20 defs sel l r = 0%N ->
  match r with
  | Ok (out, kept) => SeqExpands defs sel [] l out /\ kept = map dname (keep defs sel)
  | Err e => SeqFails defs sel [] l e
  end.
Proof.
  intros WF. unfold chk_c20, expand_program.
  pose proof (expand_fuel defs sel (S (seq_count defs)) [] l (StackOK_nil defs)) as Hfuel.
  destruct r as [[out kept]|e];
    destruct (expand defs sel (S (seq_count defs)) [] l) as [out'|e'] eqn:E; try discriminate.
  - destruct (list_eqb instr_eqb out out') eqn:E1; [|discriminate].
    destruct (list_eqb N.eqb kept (map dname (keep defs sel))) eqn:E2; [|discriminate].
    intros _. apply instrs_eqb_eq in E1. apply listN_eqb_eq in E2. subst. split; auto.
    eapply expand_sound; eauto.
  - destruct (err_eqb e e') eqn:E1; [|discriminate]. intros _.
    apply err_eqb_eq in E1. subst e'. eapply expand_err_sound; eauto.
    intros ->. apply Hfuel; [cbn; lia | reflexivity].
Qed.

(** * Statements about the entry points (fuel = number of sequence definitions + 1) *)

Lemma expand_program_iff defs sel l out :
  expand_program defs sel l = Ok out <-> SeqExpands defs sel [] l out.
Proof.
  unfold expand_program. split.
  - apply expand_sound.
  - intros H. apply (expand_complete defs sel [] l out H); [apply StackOK_nil | cbn; lia].
Qed.

Lemma expand_program_terminates defs sel l fuel :
  seq_count defs < fuel -> expand defs sel fuel [] l <> Err OutOfFuel.
Proof. intros H. apply expand_fuel; [apply StackOK_nil | cbn; lia]. Qed.

Lemma expand_program_err_iff defs sel l e :
  WFdefs defs -> (expand_program defs sel l = Err e <-> SeqFails defs sel [] l e).
Proof.
  intros WF. unfold expand_program. split.
  - intros H. apply (expand_err_sound defs sel WF _ _ _ _ H).
    intros ->. revert H. apply expand_program_terminates. lia.
  - intros H. apply (expand_err_complete defs sel WF [] l e H); [apply StackOK_nil | cbn; lia].
Qed.

Lemma expand_untouched defs sel l :
  Forall (Untouched defs sel) l -> expand_program defs sel l = Ok l.
Proof.
  intros H. apply expand_program_iff. induction H; constructor; auto.
Qed.

(** the five error kinds an expansion can report *)
Definition reportable (e : err) : Prop :=
  match e with
  | EParamCount _ _ | ECycle _ | EQubitCount _ _ | ENonFixed _ | EMods _ => True
  | _ => False
  end.

Lemma SeqFails_reportable defs sel st l e : SeqFails defs sel st l e -> reportable e.
Proof.
  induction 1 as [st g d formals body t e Hinv HE | |]; auto.
  inversion HE; exact I.
Qed.

Lemma expand_program_sm_agree defs sel l :
  (forall out m, expand_program_sm defs sel l = Ok (out, m) -> expand_program defs sel l = Ok out)
  /\ (forall e, expand_program_sm defs sel l = Err e -> expand_program defs sel l = Err e)
  /\ (forall out, expand_program defs sel l = Ok out ->
                  exists m, expand_program_sm defs sel l = Ok (out, m)).
Proof.
  unfold expand_program_sm, expand_program.
  pose proof (expand_sm_fst defs sel (S (seq_count defs)) [] l) as H.
  destruct (expand_sm defs sel (S (seq_count defs)) [] l) as [[r m]|e].
  - repeat split.
    + intros out m' E. injection E as <- <-. exact H.
    + discriminate.
    + intros out E. rewrite H in E. injection E as <-. eauto.
  - repeat split; try discriminate.
    + intros e' E. injection E as <-. exact H.
    + intros out E. rewrite H in E. discriminate.
Qed.

Lemma expand_program_sm_WF defs sel l out m :
  expand_program_sm defs sel l = Ok (out, m) -> WFmap defs sel [] l 0 0 m out.
Proof. apply expand_sm_WF. Qed.

(** * Further consequences: nothing selected is left, determinism of the specifications *)

Lemma SeqExpands_untouched defs sel st l out :
  SeqExpands defs sel st l out -> Forall (Untouched defs sel) out.
Proof.
  induction 1; auto.
  apply Forall_app. auto.
Qed.

Lemma expand_idempotent defs sel l out :
  expand_program defs sel l = Ok out -> expand_program defs sel out = Ok out.
Proof.
  intros H. apply expand_untouched. apply expand_program_iff in H.
  eapply SeqExpands_untouched; eauto.
Qed.

Lemma Instantiates_fun g d formals body b1 b2 :
  Instantiates g d formals body b1 -> Instantiates g d formals body b2 -> b1 = b2.
Proof.
  intros [P1 [_ [Q1 [F1 S1]]]] [_ [_ [_ [_ S2]]]].
  assert (E1 : seq_expand formals body (combine (dparams d) (gparams g)) (gqubits g) = Ok b1)
    by (apply seq_expand_ok; auto).
  assert (E2 : seq_expand formals body (combine (dparams d) (gparams g)) (gqubits g) = Ok b2)
    by (apply seq_expand_ok; auto).
  congruence.
Qed.

Lemma Untouched_not_invocation defs sel g d formals body :
  Untouched defs sel (IGate g) -> Invocation defs sel g d formals body -> False.
Proof. intros H. apply H. Qed.

Lemma WFmap_fun defs sel st l k b es out :
  WFmap defs sel st l k b es out ->
  forall es' out', WFmap defs sel st l k b es' out' -> es = es' /\ out = out'.
Proof.
  induction 1 as [st k b | st i t k b es out Hu _ IH
                 | st g d formals body body' t k b nested es out1 out2 Hinv Hins Hn _ IH1 _ IH2];
    intros es' out' H'.
  - inversion H'; subst. auto.
  - inversion H' as [| ? ? ? ? ? es2 out2 Hu2 H2 | ? g2 d2 f2 bd2 bd2' ? ? ? nst2 es2 o1 o2 Hinv2];
      subst.
    + destruct (IH _ _ H2) as [-> ->]. auto.
    + exfalso. eapply Untouched_not_invocation; eauto.
  - inversion H' as [| ? ? ? ? ? es2 o2 Hu2 H2
                     | ? g2 d2 f2 bd2 bd2' ? ? ? nst2 es2 o1 o2 Hinv2 Hins2 Hn2 Hnested2 Hrest2];
      subst.
    + exfalso. eapply Untouched_not_invocation; eauto.
    + destruct (Invocation_fun _ _ _ _ _ _ _ _ _ Hinv Hinv2) as [<- [<- <-]].
      pose proof (Instantiates_fun _ _ _ _ _ _ Hins Hins2) as <-.
      destruct (IH1 _ _ Hnested2) as [<- <-].
      destruct (IH2 _ _ Hrest2) as [<- <-]. auto.
Qed.
