(** Proofs about Model/ParsePanic.v: the repaired parser model never produces [Panic]; the
    snapshot model does (refutation witnesses); the expression parser's fuel is sufficient and its
    recursion depth is bounded by the nesting of its input. *)
From Coq Require Import List NArith ZArith Bool Lia Arith.
From QV Require Import Model.ParsePanic.
Import ListNotations.

Ltac bm :=
  match goal with
  | |- context [match ?x with _ => _ end] => destruct x eqn:?
  end.

(** break matches in the goal and in hypotheses, discharging contradictory branches eagerly *)
Ltac bmh :=
  match goal with
  | |- context [match ?x with _ => _ end] => destruct x eqn:?
  | H : context [match ?x with _ => _ end] |- _ => destruct x eqn:?
  end; try congruence.

Lemma close_paren_panic : forall A (r : res A), close_paren r = Panic -> r = Panic.
Proof. intros A r; unfold close_paren; repeat bm; congruence. Qed.

(** * No panic *)

Lemma primary_no_panic :
  forall pe, (forall ts, pe ts <> Panic) -> forall ts, primary pe ts <> Panic.
Proof.
  intros pe Hpe ts; unfold primary.
  repeat bmh;
    repeat (match goal with H : close_paren _ = Panic |- _ => apply close_paren_panic in H end);
    try (exfalso; eapply Hpe; eassumption);
    try (intro Hc; apply close_paren_panic in Hc; eapply Hpe; eassumption).
Qed.

Lemma parse_e_no_panic :
  forall f, (forall p ts, parse_e f p ts <> Panic) /\ (forall p l ts, loop_e f p l ts <> Panic).
Proof.
  induction f as [|f [IHp IHl]]; split; intros; cbn [parse_e loop_e]; try congruence.
  - destruct (strip_minus ts) as [neg ts1].
    destruct (primary (parse_e f 0) ts1) eqn:Hp; try congruence; try apply IHl.
    exfalso; eapply primary_no_panic; [|exact Hp]. intros; apply IHp.
  - repeat bmh; try apply IHl; try (exfalso; eapply IHp; eassumption).
Qed.

Lemma p_expr_np : forall ts, p_expr ts <> Panic.
Proof. intros; unfold p_expr; apply parse_e_no_panic. Qed.

Lemma p_memref_np : forall ts, p_memref ts <> Panic.
Proof. intros; unfold p_memref; repeat bmh. Qed.

Lemma p_qubit_np : forall ts, p_qubit ts <> Panic.
Proof. intros; unfold p_qubit; repeat bmh. Qed.

Lemma p_frame_np : forall ts, p_frame ts <> Panic.
Proof. intros; unfold p_frame; repeat bmh. Qed.

Lemma p_expr_list_tail_np : forall f ts, p_expr_list_tail f ts <> Panic.
Proof.
  induction f as [|f IH]; intros; cbn [p_expr_list_tail]; try congruence.
  repeat bmh; try (exfalso; eapply p_expr_np; eassumption); try (exfalso; eapply IH; eassumption).
Qed.

Lemma p_expr_list_np : forall ts, p_expr_list ts <> Panic.
Proof.
  intros; unfold p_expr_list.
  repeat bmh; try (exfalso; eapply p_expr_np; eassumption);
    try (exfalso; eapply p_expr_list_tail_np; eassumption).
Qed.

Lemma p_params_np : forall ts, p_params ts <> Panic.
Proof.
  intros; unfold p_params. repeat bmh; exfalso; eapply p_expr_list_np; eassumption.
Qed.

Lemma p_gate_np : forall ts, p_gate ts <> Panic.
Proof.
  intros; unfold p_gate, bind. repeat bmh; exfalso; eapply p_params_np; eassumption.
Qed.

Lemma p_named_args_tail_np : forall f ts, p_named_args_tail f ts <> Panic.
Proof.
  induction f as [|f IH]; intros; cbn [p_named_args_tail]; try congruence.
  repeat bmh; try (exfalso; eapply p_expr_np; eassumption); try (exfalso; eapply IH; eassumption).
Qed.

Lemma p_named_args_np : forall ts, p_named_args ts <> Panic.
Proof.
  intros; unfold p_named_args.
  repeat bmh; try (exfalso; eapply p_expr_np; eassumption);
    try (exfalso; eapply p_named_args_tail_np; eassumption).
Qed.

Lemma p_waveform_np : forall ts, p_waveform ts <> Panic.
Proof.
  intros; unfold p_waveform. repeat bmh; exfalso; eapply p_named_args_np; eassumption.
Qed.

Lemma signed_int_np : forall op v r, signed_int Repaired op v r <> Panic.
Proof. intros; unfold signed_int; repeat bmh. Qed.

Lemma signed_real_np : forall op f r, signed_real Repaired op f r <> Panic.
Proof. intros; unfold signed_real; repeat bmh. Qed.

Lemma p_arith_operand_np : forall ts, p_arith_operand Repaired ts <> Panic.
Proof.
  intros; unfold p_arith_operand, bind.
  repeat bmh; try apply signed_int_np; try apply signed_real_np;
    exfalso; eapply p_memref_np; eassumption.
Qed.

Lemma p_logic_operand_np : forall ts, p_logic_operand Repaired ts <> Panic.
Proof.
  intros; unfold p_logic_operand, bind.
  repeat bmh; try apply signed_int_np; exfalso; eapply p_memref_np; eassumption.
Qed.

Ltac kill :=
  exfalso;
  first [ eapply p_expr_np; eassumption | eapply p_memref_np; eassumption
        | eapply p_qubit_np; eassumption | eapply p_frame_np; eassumption
        | eapply p_waveform_np; eassumption | eapply p_arith_operand_np; eassumption
        | eapply p_logic_operand_np; eassumption | eapply p_gate_np; eassumption ].

Lemma p_delay_np : forall ts, p_delay ts <> Panic.
Proof. intros; unfold p_delay; repeat bmh; kill. Qed.

Lemma p_measure_np : forall ts, p_measure ts <> Panic.
Proof. intros; unfold p_measure, bind; repeat bmh; kill. Qed.

Lemma p_declare_np : forall ts, p_declare ts <> Panic.
Proof. intros; unfold p_declare; repeat bmh. Qed.

Lemma p_pulse_np : forall b ts, p_pulse b ts <> Panic.
Proof. intros; unfold p_pulse, bind; repeat bmh; kill. Qed.

Lemma p_capture_np : forall b ts, p_capture b ts <> Panic.
Proof. intros; unfold p_capture, bind; repeat bmh; kill. Qed.

Lemma p_raw_capture_np : forall b ts, p_raw_capture b ts <> Panic.
Proof. intros; unfold p_raw_capture, bind; repeat bmh; kill. Qed.

Lemma p_frame_expr_np : forall c ts, p_frame_expr c ts <> Panic.
Proof. intros; unfold p_frame_expr, bind; repeat bmh; kill. Qed.

Lemma p_command_np : forall c ts, p_command Repaired c ts <> Panic.
Proof.
  intros c ts; destruct c; cbn [p_command]; unfold bind, p_target;
    try apply p_delay_np; try apply p_measure_np; try apply p_declare_np; try apply p_pulse_np;
    try apply p_capture_np; try apply p_raw_capture_np; try apply p_frame_expr_np;
    try congruence; repeat bmh; kill.
Qed.

Lemma p_instruction_np : forall ts, p_instruction Repaired ts <> Panic.
Proof.
  intros; unfold p_instruction.
  repeat bmh; try apply p_command_np; try apply p_gate_np; try apply p_pulse_np;
    try apply p_capture_np; try apply p_raw_capture_np.
Qed.

Lemma p_program_loop_np : forall f ts, p_program_loop Repaired f ts <> Panic.
Proof.
  induction f as [|f IH]; intros; cbn [p_program_loop].
  - repeat bmh.
  - repeat bmh; try (exfalso; eapply p_instruction_np; eassumption);
      try (exfalso; eapply IH; eassumption).
Qed.

(** every entry point of the repaired model returns a value or an error, never [Panic] *)
Theorem run_no_panic : forall e ts, run Repaired e ts <> OPanic.
Proof.
  intros e ts; destruct e; cbn [run]; unfold all_consumed, p_program.
  - repeat bmh. exfalso; eapply p_program_loop_np; eassumption.
  - repeat bmh. exfalso; eapply p_program_loop_np; eassumption.
  - repeat bmh. kill.
  - repeat bmh. kill.
  - repeat bmh. kill.
Qed.

(** the snapshot model does panic: the three families of the unrepaired code *)
Lemma snapshot_panics :
  run Snapshot EProgram [TCmd CAdd; TId (IdName 0); TOp OPlus; TInt 1] = OPanic /\
  run Snapshot EProgram [TNonBlocking] = OPanic /\
  run Snapshot EProgram [TCmd CMove; TId (IdName 0); TOp OMinus; TInt 9223372036854775808] = OPanic.
Proof. vm_compute. repeat split. Qed.

(** * The instance checker *)

Lemma single_code_sound :
  forall e ots o, single_code Repaired e ots o = 0%N ->
    (o = OOk \/ o = OErr) /\
    (forall ts, ots = Some ts -> run Repaired e ts = OUnk \/ run Repaired e ts = o).
Proof.
  intros e ots o H. unfold single_code in H.
  destruct (chk_outcome o) eqn:Hc; cbn [negb] in H; [|discriminate].
  split.
  - destruct o; cbn in Hc; try discriminate; auto.
  - intros ts ->. destruct (run Repaired e ts) eqn:Hr; auto; right;
      destruct o; cbn in H; try discriminate; reflexivity.
Qed.

Lemma group_code_sound :
  forall e prefix d ex al i, group_code Repaired e prefix d ex i al = 0%N ->
    forall k a, nth_error al k = Some a ->
      single_code Repaired e (Some (prefix ++ [a])) (lookup_out (i + N.of_nat k) ex d) = 0%N.
Proof.
  intros e prefix d ex al; induction al as [|a0 al IH]; intros i H k a Hk.
  - destruct k; discriminate.
  - cbn [group_code] in H.
    assert (H1 : single_code Repaired e (Some (prefix ++ [a0])) (lookup_out i ex d) = 0%N) by lia.
    assert (H2 : group_code Repaired e prefix d ex (N.succ i) al = 0%N) by lia.
    destruct k as [|k]; cbn [nth_error] in Hk.
    + injection Hk as <-. replace (i + N.of_nat 0)%N with i by lia. exact H1.
    + replace (i + N.of_nat (S k))%N with (N.succ i + N.of_nat k)%N by lia. eapply IH; eauto.
Qed.

(** * Fuel: every parser consumes input, so the fuel given by the entry points suffices *)

Ltac inv_ok :=
  repeat match goal with
         | H : Ok _ _ = Ok _ _ |- _ => inversion H; subst; clear H
         | H : Some _ = Some _ |- _ => inversion H; subst; clear H
         | H : (_, _) = (_, _) |- _ => inversion H; subst; clear H
         end; try congruence.

Ltac len := cbn [length] in *; try lia.

Lemma brackets_len : forall ts i r, brackets ts = Some (i, r) -> length r + 3 = length ts.
Proof. intros ts i r H; unfold brackets in H; repeat bmh; inv_ok; len. Qed.

Lemma opt_i_len : forall ts b r, opt_i ts = (b, r) -> length r <= length ts.
Proof. intros ts b r H; unfold opt_i in H; repeat bmh; inv_ok; len. Qed.

Lemma immediate_len : forall ts im v r, immediate ts = Some (im, v, r) -> length r < length ts.
Proof.
  intros ts im v r H; unfold immediate in H; repeat bmh; inv_ok;
    match goal with H : opt_i _ = _ |- _ => apply opt_i_len in H end; len.
Qed.

Lemma close_paren_len : forall A (x : res A) a r n,
  (forall a' r', x = Ok a' r' -> length r' < n) -> close_paren x = Ok a r -> length r < n.
Proof.
  intros A x a r n Hx H; unfold close_paren in H; repeat bmh; inv_ok.
  specialize (Hx _ _ eq_refl). len.
Qed.

Lemma primary_len : forall pe,
  (forall ts e r, pe ts = Ok e r -> length r < length ts) ->
  forall ts e r, primary pe ts = Ok e r -> length r < length ts.
Proof.
  intros pe Hpe ts e r H. unfold primary in H.
  destruct (immediate ts) as [[[im v] r0]|] eqn:Hi.
  - inv_ok. eapply immediate_len; eauto.
  - destruct ts as [|t ts]; [discriminate|]. destruct t; try discriminate.
    + (* TLParen *)
      cbn [length]. apply Nat.lt_lt_succ_r.
      eapply close_paren_len; [|exact H]. intros a' r' Ha. eapply Hpe; eauto.
    + (* TId *)
      destruct (brackets ts) as [[i r0]|] eqn:Hb.
      * inv_ok. apply brackets_len in Hb. len.
      * destruct (ident_class x) as [[]|]; inv_ok; len;
          (destruct ts as [|[] ts']; try discriminate;
           match goal with
           | H : match close_paren (pe ?r1) with _ => _ end = Ok _ _ |- _ =>
               destruct (close_paren (pe r1)) eqn:Hc; try discriminate; inv_ok;
               assert (length r < length r1)
                 by (eapply close_paren_len; [|exact Hc]; intros; eapply Hpe; eauto); len
           end).
    + (* TVar *) inv_ok. len.
Qed.

Lemma strip_minus_len : forall ts b r, strip_minus ts = (b, r) -> length r <= length ts.
Proof. intros ts b r H; unfold strip_minus in H; repeat bmh; inv_ok; len. Qed.

Lemma parse_e_len :
  forall f, (forall p ts e r, parse_e f p ts = Ok e r -> length r < length ts) /\
            (forall p l ts e r, loop_e f p l ts = Ok e r -> length r <= length ts).
Proof.
  induction f as [|f [IHp IHl]]; split; intros; cbn [parse_e loop_e] in H; try discriminate.
  - destruct (strip_minus ts) as [neg ts1] eqn:Hs. apply strip_minus_len in Hs.
    destruct (primary (parse_e f 0) ts1) eqn:Hp; try discriminate.
    apply primary_len in Hp; [|intros; eapply IHp; eauto].
    apply IHl in H. lia.
  - destruct ts as [|t ts]; [inv_ok; len|]. destruct t; inv_ok; len.
    destruct (Nat.ltb p (prec o)); [|inv_ok; len].
    destruct (parse_e f (prec o) ts) eqn:Hp; try discriminate.
    apply IHp in Hp. apply IHl in H. len.
Qed.

Lemma primary_fuel : forall pe ts,
  (forall r, length r < length ts -> pe r <> Fuel) -> primary pe ts <> Fuel.
Proof.
  intros pe ts Hpe H. unfold primary in H.
  destruct (immediate ts) as [[[im v] r0]|]; [discriminate|].
  destruct ts as [|t ts]; [discriminate|]. destruct t; try discriminate.
  - unfold close_paren in H. destruct (pe ts) eqn:Hc; try discriminate.
    + repeat bmh.
    + eapply Hpe; [|exact Hc]. len.
  - destruct (brackets ts) as [[i r0]|]; [discriminate|].
    destruct (ident_class x) as [[]|]; try discriminate;
      (destruct ts as [|[] ts']; try discriminate; unfold close_paren in H;
       destruct (pe ts') eqn:Hc; try discriminate; [repeat bmh | eapply Hpe; [|exact Hc]; len]).
Qed.

Lemma parse_e_fuel :
  forall f, (forall p ts, length ts < f -> parse_e f p ts <> Fuel) /\
            (forall p l ts, length ts < f -> loop_e f p l ts <> Fuel).
Proof.
  induction f as [|f [IHp IHl]]; split; intros; try lia; cbn [parse_e loop_e].
  - destruct (strip_minus ts) as [neg ts1] eqn:Hs. apply strip_minus_len in Hs.
    destruct (primary (parse_e f 0) ts1) eqn:Hp; try discriminate.
    + apply primary_len in Hp; [|intros; eapply (proj1 (parse_e_len f)); eauto].
      apply IHl. lia.
    + exfalso. eapply primary_fuel; [|exact Hp]. intros r Hr. apply IHp. lia.
  - destruct ts as [|t ts]; [discriminate|]. destruct t; try discriminate.
    destruct (Nat.ltb p (prec o)); [|discriminate].
    destruct (parse_e f (prec o) ts) eqn:Hp; try discriminate.
    + apply (proj1 (parse_e_len f)) in Hp. apply IHl. len.
    + exfalso. eapply IHp; [|exact Hp]. len.
Qed.

(** [parse_expression] never runs out of the fuel it gives itself *)
Theorem p_expr_no_fuel : forall ts, p_expr ts <> Fuel.
Proof. intros ts; unfold p_expr; apply parse_e_fuel; lia. Qed.

Lemma p_expr_len : forall ts e r, p_expr ts = Ok e r -> length r < length ts.
Proof. intros ts e r H; unfold p_expr in H; eapply (proj1 (parse_e_len _)); eauto. Qed.

Lemma p_memref_len : forall ts m r, p_memref ts = Ok m r -> length r < length ts.
Proof.
  intros ts m r H; unfold p_memref in H; repeat bmh; inv_ok;
    try match goal with H : brackets _ = Some _ |- _ => apply brackets_len in H end; len.
Qed.

Lemma p_qubit_len : forall ts q r, p_qubit ts = Ok q r -> length r < length ts.
Proof. intros ts q r H; unfold p_qubit in H; repeat bmh; inv_ok; len. Qed.

Lemma p_qubits_len : forall ts qs r, p_qubits ts = (qs, r) -> length r <= length ts.
Proof.
  induction ts as [|t ts IH]; intros qs r H; cbn [p_qubits] in H; [inv_ok; len|].
  destruct t; inv_ok; len; destruct (p_qubits ts) as [qs' r'] eqn:Hq; inv_ok;
    specialize (IH _ _ eq_refl); len.
Qed.

Lemma p_strings_len : forall ts l r, p_strings ts = (l, r) -> length r <= length ts.
Proof.
  induction ts as [|t ts IH]; intros l r H; cbn [p_strings] in H; [inv_ok; len|].
  destruct t; inv_ok; len; destruct (p_strings ts) as [l' r'] eqn:Hq; inv_ok;
    specialize (IH _ _ eq_refl); len.
Qed.

Lemma p_modifiers_len : forall ts l r, p_modifiers ts = (l, r) -> length r <= length ts.
Proof.
  induction ts as [|t ts IH]; intros l r H; cbn [p_modifiers] in H; [inv_ok; len|].
  destruct t; inv_ok; len; destruct (p_modifiers ts) as [l' r'] eqn:Hq; inv_ok;
    specialize (IH _ _ eq_refl); len.
Qed.

Lemma p_pragma_args_len : forall ts l r, p_pragma_args ts = (l, r) -> length r <= length ts.
Proof.
  induction ts as [|t ts IH]; intros l r H; cbn [p_pragma_args] in H; [inv_ok; len|].
  destruct t; inv_ok; len; destruct (p_pragma_args ts) as [l' r'] eqn:Hq; inv_ok;
    specialize (IH _ _ eq_refl); len.
Qed.

Lemma p_frame_len : forall ts f r, p_frame ts = Ok f r -> length r < length ts.
Proof.
  intros ts f r H; unfold p_frame in H. destruct (p_qubits ts) as [qs r0] eqn:Hq.
  apply p_qubits_len in Hq. repeat bmh; inv_ok; len.
Qed.

Lemma p_expr_list_tail_len : forall f ts l r,
  p_expr_list_tail f ts = Ok l r -> length r <= length ts.
Proof.
  induction f as [|f IH]; intros ts l r H; cbn [p_expr_list_tail] in H; [discriminate|].
  destruct ts as [|t ts]; [inv_ok; len|]. destruct t; inv_ok; len.
  destruct (p_expr ts) eqn:He; inv_ok; len.
  apply p_expr_len in He. destruct (p_expr_list_tail f rest) eqn:Ht; inv_ok.
  apply IH in Ht. len.
Qed.

Lemma p_expr_list_tail_nf : forall f ts, length ts < f -> p_expr_list_tail f ts <> Fuel.
Proof.
  induction f as [|f IH]; intros ts Hf; [lia|]. cbn [p_expr_list_tail].
  destruct ts as [|t ts]; [discriminate|]. destruct t; try discriminate.
  destruct (p_expr ts) eqn:He; try discriminate.
  - apply p_expr_len in He. destruct (p_expr_list_tail f rest) eqn:Ht; try discriminate.
    exfalso. eapply IH; [|exact Ht]. len.
  - exfalso. eapply p_expr_no_fuel; eauto.
Qed.

Lemma p_expr_list_len : forall ts l r, p_expr_list ts = Ok l r -> length r <= length ts.
Proof.
  intros ts l r H; unfold p_expr_list in H. destruct (p_expr ts) eqn:He; inv_ok; len.
  apply p_expr_len in He. destruct (p_expr_list_tail (S (length rest)) rest) eqn:Ht; inv_ok.
  apply p_expr_list_tail_len in Ht. len.
Qed.

Lemma p_expr_list_nf : forall ts, p_expr_list ts <> Fuel.
Proof.
  intros ts H; unfold p_expr_list in H. destruct (p_expr ts) eqn:He; try discriminate.
  - destruct (p_expr_list_tail (S (length rest)) rest) eqn:Ht; try discriminate.
    eapply p_expr_list_tail_nf; [|exact Ht]. lia.
  - eapply p_expr_no_fuel; eauto.
Qed.

Lemma p_params_len : forall ts l r, p_params ts = Ok l r -> length r <= length ts.
Proof.
  intros ts l r H; unfold p_params in H. destruct ts as [|t ts]; [inv_ok; len|].
  destruct t; inv_ok; len. destruct (p_expr_list ts) eqn:He; inv_ok; len.
  apply p_expr_list_len in He. repeat bmh; inv_ok; len.
Qed.

Lemma p_params_nf : forall ts, p_params ts <> Fuel.
Proof.
  intros ts H; unfold p_params in H. repeat bmh. eapply p_expr_list_nf; eauto.
Qed.

Lemma p_gate_len : forall ts i r, p_gate ts = Ok i r -> length r < length ts.
Proof.
  intros ts i r H; unfold p_gate, bind in H. destruct (p_modifiers ts) as [mods r0] eqn:Hm.
  apply p_modifiers_len in Hm. destruct r0 as [|t r0]; [discriminate|]. destruct t; try discriminate.
  destruct (p_params r0) eqn:Hp; try discriminate. apply p_params_len in Hp.
  destruct (p_qubits rest) as [qs r3] eqn:Hq. apply p_qubits_len in Hq. inv_ok. len.
Qed.

Lemma p_gate_nf : forall ts, p_gate ts <> Fuel.
Proof.
  intros ts H; unfold p_gate, bind in H. repeat bmh. eapply p_params_nf; eauto.
Qed.

Lemma named_key_len : forall ts k r, named_key ts = Some (k, r) -> length r + 2 = length ts.
Proof. intros ts k r H; unfold named_key in H; repeat bmh; inv_ok; len. Qed.

Lemma p_named_args_tail_len : forall f ts l r,
  p_named_args_tail f ts = Ok l r -> length r <= length ts.
Proof.
  induction f as [|f IH]; intros ts l r H; cbn [p_named_args_tail] in H; [discriminate|].
  destruct ts as [|t ts]; [inv_ok; len|]. destruct t; inv_ok; len.
  destruct (named_key ts) as [[k r0]|] eqn:Hk; inv_ok; len. apply named_key_len in Hk.
  destruct (p_expr r0) eqn:He; inv_ok; len.
  apply p_expr_len in He. destruct (p_named_args_tail f rest) eqn:Ht; inv_ok.
  apply IH in Ht. len.
Qed.

Lemma p_named_args_tail_nf : forall f ts, length ts < f -> p_named_args_tail f ts <> Fuel.
Proof.
  induction f as [|f IH]; intros ts Hf; [lia|]. cbn [p_named_args_tail].
  destruct ts as [|t ts]; [discriminate|]. destruct t; try discriminate.
  destruct (named_key ts) as [[k r0]|] eqn:Hk; try discriminate. apply named_key_len in Hk.
  destruct (p_expr r0) eqn:He; try discriminate.
  - apply p_expr_len in He. destruct (p_named_args_tail f rest) eqn:Ht; try discriminate.
    exfalso. eapply IH; [|exact Ht]. len.
  - exfalso. eapply p_expr_no_fuel; eauto.
Qed.

Lemma p_named_args_len : forall ts l r, p_named_args ts = Ok l r -> length r <= length ts.
Proof.
  intros ts l r H; unfold p_named_args in H.
  destruct (named_key ts) as [[k r0]|] eqn:Hk; inv_ok; len. apply named_key_len in Hk.
  destruct (p_expr r0) eqn:He; inv_ok; len. apply p_expr_len in He.
  destruct (p_named_args_tail (S (length rest)) rest) eqn:Ht; inv_ok.
  apply p_named_args_tail_len in Ht. len.
Qed.

Lemma p_named_args_nf : forall ts, p_named_args ts <> Fuel.
Proof.
  intros ts H; unfold p_named_args in H.
  destruct (named_key ts) as [[k r0]|]; try discriminate.
  destruct (p_expr r0) eqn:He; try discriminate.
  - destruct (p_named_args_tail (S (length rest)) rest) eqn:Ht; try discriminate.
    eapply p_named_args_tail_nf; [|exact Ht]. lia.
  - eapply p_expr_no_fuel; eauto.
Qed.

Lemma wf_ext_len : forall ts x r, wf_ext ts = Some (x, r) -> length r + 2 = length ts.
Proof. intros ts x r H; unfold wf_ext in H; repeat bmh; inv_ok; len. Qed.

Lemma p_waveform_len : forall ts w r, p_waveform ts = Ok w r -> length r < length ts.
Proof.
  intros ts w r H; unfold p_waveform in H.
  destruct ts as [|t ts]; [discriminate|]. destruct t; try discriminate.
  destruct (wf_ext ts) as [[ext r0]|] eqn:Hw; [apply wf_ext_len in Hw|];
    repeat bmh; inv_ok; len;
    match goal with H : p_named_args _ = Ok _ _ |- _ => apply p_named_args_len in H end; len.
Qed.

Lemma p_waveform_nf : forall ts, p_waveform ts <> Fuel.
Proof.
  intros ts H; unfold p_waveform in H. repeat bmh; eapply p_named_args_nf; eauto.
Qed.

Lemma signed_int_len : forall vr op v r o r', signed_int vr op v r = Ok o r' -> r' = r.
Proof. intros vr op v r o r' H; unfold signed_int in H; repeat bmh; inv_ok. Qed.

Lemma signed_real_len : forall vr op f r o r', signed_real vr op f r = Ok o r' -> r' = r.
Proof. intros vr op f r o r' H; unfold signed_real in H; repeat bmh; inv_ok. Qed.

Lemma p_arith_operand_len : forall vr ts o r, p_arith_operand vr ts = Ok o r -> length r < length ts.
Proof.
  intros vr ts o r H; unfold p_arith_operand, bind in H.
  repeat bmh; inv_ok;
    try (match goal with H : signed_int _ _ _ _ = Ok _ _ |- _ => apply signed_int_len in H end);
    try (match goal with H : signed_real _ _ _ _ = Ok _ _ |- _ => apply signed_real_len in H end);
    try (match goal with H : p_memref _ = Ok _ _ |- _ => apply p_memref_len in H end);
    subst; len.
Qed.

Lemma p_logic_operand_len : forall vr ts o r, p_logic_operand vr ts = Ok o r -> length r < length ts.
Proof.
  intros vr ts o r H; unfold p_logic_operand, bind in H.
  repeat bmh; inv_ok;
    try (match goal with H : signed_int _ _ _ _ = Ok _ _ |- _ => apply signed_int_len in H end);
    try (match goal with H : p_memref _ = Ok _ _ |- _ => apply p_memref_len in H end);
    subst; len.
Qed.

Lemma p_call_arg_len : forall ts a r, p_call_arg ts = Some (a, r) -> length r < length ts.
Proof.
  intros ts a r H; unfold p_call_arg in H.
  repeat bmh; inv_ok;
    try (match goal with H : brackets _ = Some _ |- _ => apply brackets_len in H end);
    try (match goal with H : immediate _ = Some _ |- _ => apply immediate_len in H end); len.
Qed.

Lemma p_call_args_len : forall f ts l r, p_call_args f ts = (l, r) -> length r <= length ts.
Proof.
  induction f as [|f IH]; intros ts l r H; cbn [p_call_args] in H; [inv_ok; len|].
  destruct (p_call_arg ts) as [[a r0]|] eqn:Ha; [|inv_ok; len].
  apply p_call_arg_len in Ha. destruct (p_call_args f r0) as [l' r'] eqn:Hc. inv_ok.
  apply IH in Hc. len.
Qed.

Lemma p_offsets_len : forall n ts l r, length ts <= n -> p_offsets ts = (l, r) -> length r <= length ts.
Proof.
  induction n as [|n IH]; intros ts l r Hn H.
  - destruct ts; [cbn in H; inv_ok; len | cbn in Hn; lia].
  - destruct ts as [|t ts]; cbn [p_offsets] in H; [inv_ok; len|].
    destruct t; inv_ok; len. destruct ts as [|t2 ts]; [inv_ok; len|]. destruct t2; inv_ok; len.
    destruct (p_offsets ts) as [l' r'] eqn:Ho. inv_ok. apply IH in Ho; len.
Qed.

Lemma p_sharing_len : forall ts s r, p_sharing ts = (s, r) -> length r <= length ts.
Proof.
  intros ts s r H; unfold p_sharing in H.
  repeat bmh; inv_ok; len;
    match goal with H : p_offsets ?x = _ |- _ => apply (p_offsets_len (length x)) in H; [|lia] end; len.
Qed.

Lemma p_declare_len : forall ts i r, p_declare ts = Ok i r -> length r <= length ts.
Proof.
  intros ts i r H; unfold p_declare in H.
  destruct ts as [|t ts]; [discriminate|]. destruct t; try discriminate.
  destruct ts as [|t2 ts]; [discriminate|]. destruct t2; try discriminate.
  destruct (brackets ts) as [[n r']|] eqn:Hb.
  - apply brackets_len in Hb. destruct (p_sharing r') as [sh r2] eqn:Hs. apply p_sharing_len in Hs.
    inv_ok. len.
  - destruct (p_sharing ts) as [sh r2] eqn:Hs. apply p_sharing_len in Hs. inv_ok. len.
Qed.

Lemma p_delay_len : forall ts i r, p_delay ts = Ok i r -> length r <= length ts.
Proof.
  intros ts i r H; unfold p_delay in H.
  destruct (p_qubits ts) as [qs r1] eqn:Hq. apply p_qubits_len in Hq.
  destruct (p_strings r1) as [names r2] eqn:Hs. apply p_strings_len in Hs.
  destruct (p_expr r2) eqn:He; try discriminate.
  - apply p_expr_len in He. inv_ok. len.
  - repeat bmh; inv_ok; len.
Qed.

Lemma p_delay_nf : forall ts, p_delay ts <> Fuel.
Proof. intros ts H; unfold p_delay in H; repeat bmh; eapply p_expr_no_fuel; eauto. Qed.

Lemma p_measure_len : forall ts i r, p_measure ts = Ok i r -> length r <= length ts.
Proof.
  intros ts i r H; unfold p_measure, bind in H.
  repeat bmh; inv_ok;
    repeat (match goal with
            | H : p_qubit _ = Ok _ _ |- _ => apply p_qubit_len in H
            | H : p_memref _ = Ok _ _ |- _ => apply p_memref_len in H
            end); len.
Qed.

Ltac use_len :=
  repeat (match goal with
          | H : p_qubit _ = Ok _ _ |- _ => apply p_qubit_len in H
          | H : p_memref _ = Ok _ _ |- _ => apply p_memref_len in H
          | H : p_frame _ = Ok _ _ |- _ => apply p_frame_len in H
          | H : p_expr _ = Ok _ _ |- _ => apply p_expr_len in H
          | H : p_waveform _ = Ok _ _ |- _ => apply p_waveform_len in H
          | H : p_arith_operand _ _ = Ok _ _ |- _ => apply p_arith_operand_len in H
          | H : p_logic_operand _ _ = Ok _ _ |- _ => apply p_logic_operand_len in H
          | H : p_qubits _ = (_, _) |- _ => apply p_qubits_len in H
          | H : p_pragma_args _ = (_, _) |- _ => apply p_pragma_args_len in H
          | H : p_call_args _ _ = (_, _) |- _ => apply p_call_args_len in H
          end).

Ltac use_nf :=
  exfalso;
  first [ eapply p_expr_no_fuel; eassumption | eapply p_waveform_nf; eassumption
        | eapply p_gate_nf; eassumption | eapply p_delay_nf; eassumption ].

Lemma p_frame_expr_len : forall c ts i r, p_frame_expr c ts = Ok i r -> length r <= length ts.
Proof. intros c ts i r H; unfold p_frame_expr, bind in H; repeat bmh; inv_ok; use_len; len. Qed.
Lemma p_pulse_len : forall b ts i r, p_pulse b ts = Ok i r -> length r <= length ts.
Proof. intros b ts i r H; unfold p_pulse, bind in H; repeat bmh; inv_ok; use_len; len. Qed.
Lemma p_capture_len : forall b ts i r, p_capture b ts = Ok i r -> length r <= length ts.
Proof. intros b ts i r H; unfold p_capture, bind in H; repeat bmh; inv_ok; use_len; len. Qed.
Lemma p_raw_capture_len : forall b ts i r, p_raw_capture b ts = Ok i r -> length r <= length ts.
Proof. intros b ts i r H; unfold p_raw_capture, bind in H; repeat bmh; inv_ok; use_len; len. Qed.

Lemma p_frame_expr_nf : forall c ts, p_frame_expr c ts <> Fuel.
Proof. intros c ts H; unfold p_frame_expr, bind, p_frame in H; repeat bmh; use_nf. Qed.
Lemma p_pulse_nf : forall b ts, p_pulse b ts <> Fuel.
Proof. intros b ts H; unfold p_pulse, bind, p_frame in H; repeat bmh; use_nf. Qed.
Lemma p_capture_nf : forall b ts, p_capture b ts <> Fuel.
Proof. intros b ts H; unfold p_capture, bind, p_frame, p_memref in H; repeat bmh; use_nf. Qed.
Lemma p_raw_capture_nf : forall b ts, p_raw_capture b ts <> Fuel.
Proof. intros b ts H; unfold p_raw_capture, bind, p_frame, p_memref in H; repeat bmh; use_nf. Qed.

Lemma p_command_len : forall vr c ts i r, p_command vr c ts = Ok i r -> length r <= length ts.
Proof.
  intros vr c ts i r H; destruct c; cbn [p_command] in H; unfold bind, p_target in H;
    try discriminate;
    try (apply p_delay_len in H; exact H); try (apply p_measure_len in H; exact H);
    try (apply p_declare_len in H; exact H); try (apply p_pulse_len in H; exact H);
    try (apply p_capture_len in H; exact H); try (apply p_raw_capture_len in H; exact H);
    try (apply p_frame_expr_len in H; exact H);
    repeat bmh; inv_ok; use_len; len.
Qed.

Lemma p_memref_nf : forall ts, p_memref ts <> Fuel.
Proof. intros ts H; unfold p_memref in H; repeat bmh. Qed.
Lemma p_qubit_nf : forall ts, p_qubit ts <> Fuel.
Proof. intros ts H; unfold p_qubit in H; repeat bmh. Qed.
Lemma p_frame_nf : forall ts, p_frame ts <> Fuel.
Proof. intros ts H; unfold p_frame in H; repeat bmh. Qed.
Lemma p_arith_operand_nf : forall vr ts, p_arith_operand vr ts <> Fuel.
Proof.
  intros vr ts H; unfold p_arith_operand, bind, signed_int, signed_real in H; repeat bmh;
    eapply p_memref_nf; eauto.
Qed.
Lemma p_logic_operand_nf : forall vr ts, p_logic_operand vr ts <> Fuel.
Proof.
  intros vr ts H; unfold p_logic_operand, bind, signed_int in H; repeat bmh;
    eapply p_memref_nf; eauto.
Qed.
Lemma p_measure_nf : forall ts, p_measure ts <> Fuel.
Proof. intros ts H; unfold p_measure, bind in H; repeat bmh; eapply p_qubit_nf; eauto. Qed.
Lemma p_declare_nf : forall ts, p_declare ts <> Fuel.
Proof. intros ts H; unfold p_declare in H; repeat bmh. Qed.

Ltac kill_nf :=
  exfalso;
  first [ eapply p_expr_no_fuel; eassumption | eapply p_memref_nf; eassumption
        | eapply p_qubit_nf; eassumption | eapply p_frame_nf; eassumption
        | eapply p_waveform_nf; eassumption | eapply p_arith_operand_nf; eassumption
        | eapply p_logic_operand_nf; eassumption | eapply p_gate_nf; eassumption ].

Lemma p_command_nf : forall vr c ts, p_command vr c ts <> Fuel.
Proof.
  intros vr c ts; destruct c; cbn [p_command]; unfold bind, p_target;
    try apply p_delay_nf; try apply p_measure_nf; try apply p_declare_nf; try apply p_pulse_nf;
    try apply p_capture_nf; try apply p_raw_capture_nf; try apply p_frame_expr_nf;
    try congruence; repeat bmh; kill_nf.
Qed.

Lemma p_instruction_len : forall vr ts i r, p_instruction vr ts = Ok i r -> length r < length ts.
Proof.
  intros vr ts i r H; unfold p_instruction in H.
  destruct ts as [|t ts]; [discriminate|].
  destruct t; try discriminate.
  - apply p_command_len in H. len.
  - repeat bmh; inv_ok;
      try (match goal with H : p_pulse _ _ = Ok _ _ |- _ => apply p_pulse_len in H end);
      try (match goal with H : p_capture _ _ = Ok _ _ |- _ => apply p_capture_len in H end);
      try (match goal with H : p_raw_capture _ _ = Ok _ _ |- _ => apply p_raw_capture_len in H end);
      len.
  - apply p_gate_len in H. exact H.
  - apply p_gate_len in H. exact H.
Qed.

Lemma p_instruction_nf : forall vr ts, p_instruction vr ts <> Fuel.
Proof.
  intros vr ts H; unfold p_instruction in H.
  destruct ts as [|t ts]; [discriminate|].
  destruct t; try discriminate.
  - eapply p_command_nf; eauto.
  - repeat bmh; first [eapply p_pulse_nf; eassumption | eapply p_capture_nf; eassumption
                      | eapply p_raw_capture_nf; eassumption].
  - eapply p_gate_nf; eauto.
  - eapply p_gate_nf; eauto.
Qed.

Lemma skip_len : forall ts, length (skip ts) <= length ts.
Proof.
  induction ts as [|t ts IH]; cbn [skip]; [lia|].
  destruct t; cbn [length]; try lia. destruct (indents_then_comment ts); cbn [length]; lia.
Qed.

Lemma p_program_loop_nf : forall vr f ts, length ts < f -> p_program_loop vr f ts <> Fuel.
Proof.
  induction f as [|f IH]; intros ts Hf; [lia|]. cbn [p_program_loop].
  pose proof (skip_len ts) as Hs.
  destruct (skip ts) as [|t ts1] eqn:Hsk; [discriminate|].
  destruct (p_instruction vr (t :: ts1)) eqn:Hi; try discriminate.
  - apply p_instruction_len in Hi. destruct (p_program_loop vr f rest) eqn:Hl; try discriminate.
    exfalso. eapply IH; [|exact Hl]. len.
  - exfalso. eapply p_instruction_nf; eauto.
Qed.

(** every entry point, with the fuel it gives itself, terminates with a verdict *)
Theorem run_no_fuel : forall vr e ts, run vr e ts <> OFuel.
Proof.
  intros vr e ts; destruct e; cbn [run]; unfold all_consumed, p_program.
  - repeat bmh. exfalso; eapply p_program_loop_nf; [|eassumption]. lia.
  - repeat bmh. exfalso; eapply p_program_loop_nf; [|eassumption]. lia.
  - repeat bmh. exfalso; eapply p_expr_no_fuel; eassumption.
  - unfold p_memref; repeat bmh.
  - unfold p_frame; repeat bmh.
Qed.
