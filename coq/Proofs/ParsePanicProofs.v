(** Proofs about Model/ParsePanic.v: the repaired parser model never produces [Panic]; the
    snapshot model does (refutation witnesses); the expression parser's fuel is sufficient and its
    recursion depth is bounded by the nesting of its input. *)
From Coq Require Import List NArith ZArith Bool Lia Arith.
From QV Require Import Model.ParsePanic.
Import ListNotations.

Ltac bm :=
  match goal with
  | |- context [match ?x with _ => _ end] => destruct x eqn:?
  end.

(** break matches in the goal and in hypotheses, discharging contradictory branches eagerly *)
Ltac bmh :=
  match goal with
  | |- context [match ?x with _ => _ end] => destruct x eqn:?
  | H : context [match ?x with _ => _ end] |- _ => destruct x eqn:?
  end; try congruence.

Lemma close_paren_panic : forall A (r : res A), close_paren r = Panic -> r = Panic.
Proof. intros A r; unfold close_paren; repeat bm; congruence. Qed.

(** * No panic *)

Lemma primary_no_panic :
  forall pe, (forall ts, pe ts <> Panic) -> forall ts, primary pe ts <> Panic.
Proof.
  intros pe Hpe ts; unfold primary.
  repeat bmh;
    repeat (match goal with H : close_paren _ = Panic |- _ => apply close_paren_panic in H end);
    try (exfalso; eapply Hpe; eassumption);
    try (intro Hc; apply close_paren_panic in Hc; eapply Hpe; eassumption).
Qed.

Lemma parse_e_no_panic :
  forall f, (forall p ts, parse_e f p ts <> Panic) /\ (forall p l ts, loop_e f p l ts <> Panic).
Proof.
  induction f as [|f [IHp IHl]]; split; intros; cbn [parse_e loop_e]; try congruence.
  - destruct (strip_minus ts) as [neg ts1].
    destruct (primary (parse_e f 0) ts1) eqn:Hp; try congruence; try apply IHl.
    exfalso; eapply primary_no_panic; [|exact Hp]. intros; apply IHp.
  - repeat bmh; try apply IHl; try (exfalso; eapply IHp; eassumption).
Qed.

Lemma p_expr_np : forall ts, p_expr ts <> Panic.
Proof. intros; unfold p_expr; apply parse_e_no_panic. Qed.

Lemma p_memref_np : forall ts, p_memref ts <> Panic.
Proof. intros; unfold p_memref; repeat bmh. Qed.

Lemma p_qubit_np : forall ts, p_qubit ts <> Panic.
Proof. intros; unfold p_qubit; repeat bmh. Qed.

Lemma p_frame_np : forall ts, p_frame ts <> Panic.
Proof. intros; unfold p_frame; repeat bmh. Qed.

Lemma p_expr_list_tail_np : forall f ts, p_expr_list_tail f ts <> Panic.
Proof.
  induction f as [|f IH]; intros; cbn [p_expr_list_tail]; try congruence.
  repeat bmh; try (exfalso; eapply p_expr_np; eassumption); try (exfalso; eapply IH; eassumption).
Qed.

Lemma p_expr_list_np : forall ts, p_expr_list ts <> Panic.
Proof.
  intros; unfold p_expr_list.
  repeat bmh; try (exfalso; eapply p_expr_np; eassumption);
    try (exfalso; eapply p_expr_list_tail_np; eassumption).
Qed.

Lemma p_params_np : forall ts, p_params ts <> Panic.
Proof.
  intros; unfold p_params. repeat bmh; exfalso; eapply p_expr_list_np; eassumption.
Qed.

Lemma p_gate_np : forall ts, p_gate ts <> Panic.
Proof.
  intros; unfold p_gate, bind. repeat bmh; exfalso; eapply p_params_np; eassumption.
Qed.

Lemma p_named_args_tail_np : forall f ts, p_named_args_tail f ts <> Panic.
Proof.
  induction f as [|f IH]; intros; cbn [p_named_args_tail]; try congruence.
  repeat bmh; try (exfalso; eapply p_expr_np; eassumption); try (exfalso; eapply IH; eassumption).
Qed.

Lemma p_named_args_np : forall ts, p_named_args ts <> Panic.
Proof.
  intros; unfold p_named_args.
  repeat bmh; try (exfalso; eapply p_expr_np; eassumption);
    try (exfalso; eapply p_named_args_tail_np; eassumption).
Qed.

Lemma p_waveform_np : forall ts, p_waveform ts <> Panic.
Proof.
  intros; unfold p_waveform. repeat bmh; exfalso; eapply p_named_args_np; eassumption.
Qed.

Lemma signed_int_np : forall op v r, signed_int Repaired op v r <> Panic.
Proof. intros; unfold signed_int; repeat bmh. Qed.

Lemma signed_real_np : forall op f r, signed_real Repaired op f r <> Panic.
Proof. intros; unfold signed_real; repeat bmh. Qed.

Lemma p_arith_operand_np : forall ts, p_arith_operand Repaired ts <> Panic.
Proof.
  intros; unfold p_arith_operand, bind.
  repeat bmh; try apply signed_int_np; try apply signed_real_np;
    exfalso; eapply p_memref_np; eassumption.
Qed.

Lemma p_logic_operand_np : forall ts, p_logic_operand Repaired ts <> Panic.
Proof.
  intros; unfold p_logic_operand, bind.
  repeat bmh; try apply signed_int_np; exfalso; eapply p_memref_np; eassumption.
Qed.

Ltac kill :=
  exfalso;
  first [ eapply p_expr_np; eassumption | eapply p_memref_np; eassumption
        | eapply p_qubit_np; eassumption | eapply p_frame_np; eassumption
        | eapply p_waveform_np; eassumption | eapply p_arith_operand_np; eassumption
        | eapply p_logic_operand_np; eassumption | eapply p_gate_np; eassumption ].

Lemma p_delay_np : forall ts, p_delay ts <> Panic.
Proof. intros; unfold p_delay; repeat bmh; kill. Qed.

Lemma p_measure_np : forall ts, p_measure ts <> Panic.
Proof. intros; unfold p_measure, bind; repeat bmh; kill. Qed.

Lemma p_declare_np : forall ts, p_declare ts <> Panic.
Proof. intros; unfold p_declare; repeat bmh. Qed.

Lemma p_pulse_np : forall b ts, p_pulse b ts <> Panic.
Proof. intros; unfold p_pulse, bind; repeat bmh; kill. Qed.

Lemma p_capture_np : forall b ts, p_capture b ts <> Panic.
Proof. intros; unfold p_capture, bind; repeat bmh; kill. Qed.

Lemma p_raw_capture_np : forall b ts, p_raw_capture b ts <> Panic.
Proof. intros; unfold p_raw_capture, bind; repeat bmh; kill. Qed.

Lemma p_frame_expr_np : forall c ts, p_frame_expr c ts <> Panic.
Proof. intros; unfold p_frame_expr, bind; repeat bmh; kill. Qed.

Lemma p_command_np : forall c ts, p_command Repaired c ts <> Panic.
Proof.
  intros c ts; destruct c; cbn [p_command]; unfold bind, p_target;
    try apply p_delay_np; try apply p_measure_np; try apply p_declare_np; try apply p_pulse_np;
    try apply p_capture_np; try apply p_raw_capture_np; try apply p_frame_expr_np;
    try congruence; repeat bmh; kill.
Qed.

Lemma p_instruction_np : forall ts, p_instruction Repaired ts <> Panic.
Proof.
  intros; unfold p_instruction.
  repeat bmh; try apply p_command_np; try apply p_gate_np; try apply p_pulse_np;
    try apply p_capture_np; try apply p_raw_capture_np.
Qed.

Lemma p_program_loop_np : forall f ts, p_program_loop Repaired f ts <> Panic.
Proof.
  induction f as [|f IH]; intros; cbn [p_program_loop].
  - repeat bmh.
  - repeat bmh; try (exfalso; eapply p_instruction_np; eassumption);
      try (exfalso; eapply IH; eassumption).
Qed.

(** every entry point of the repaired model returns a value or an error, never [Panic] *)
Theorem run_no_panic : forall e ts, run Repaired e ts <> OPanic.
Proof.
  intros e ts; destruct e; cbn [run]; unfold all_consumed, p_program.
  - repeat bmh. exfalso; eapply p_program_loop_np; eassumption.
  - repeat bmh. exfalso; eapply p_program_loop_np; eassumption.
  - repeat bmh. kill.
  - repeat bmh. kill.
  - repeat bmh. kill.
Qed.

(** the snapshot model does panic: the three families of the unrepaired code *)
Lemma snapshot_panics :
  run Snapshot EProgram [TCmd CAdd; TId (IdName 0); TOp OPlus; TInt 1] = OPanic /\
  run Snapshot EProgram [TNonBlocking] = OPanic /\
  run Snapshot EProgram [TCmd CMove; TId (IdName 0); TOp OMinus; TInt 9223372036854775808] = OPanic.
Proof. vm_compute. repeat split. Qed.

(** * The instance checker *)

Lemma single_code_sound :
  forall e ots o, single_code Repaired e ots o = 0%N ->
    (o = OOk \/ o = OErr) /\
    (forall ts, ots = Some ts -> run Repaired e ts = OUnk \/ run Repaired e ts = o).
Proof.
  intros e ots o H. unfold single_code in H.
  destruct (chk_outcome o) eqn:Hc; cbn [negb] in H; [|discriminate].
  split.
  - destruct o; cbn in Hc; try discriminate; auto.
  - intros ts ->. destruct (run Repaired e ts) eqn:Hr; auto; right;
      destruct o; cbn in H; try discriminate; reflexivity.
Qed.

Lemma group_code_sound :
  forall e prefix d ex al i, group_code Repaired e prefix d ex i al = 0%N ->
    forall k a, nth_error al k = Some a ->
      single_code Repaired e (Some (prefix ++ [a])) (lookup_out (i + N.of_nat k) ex d) = 0%N.
Proof.
  intros e prefix d ex al; induction al as [|a0 al IH]; intros i H k a Hk.
  - destruct k; discriminate.
  - cbn [group_code] in H.
    assert (H1 : single_code Repaired e (Some (prefix ++ [a0])) (lookup_out i ex d) = 0%N) by lia.
    assert (H2 : group_code Repaired e prefix d ex (N.succ i) al = 0%N) by lia.
    destruct k as [|k]; cbn [nth_error] in Hk.
    + injection Hk as <-. replace (i + N.of_nat 0)%N with i by lia. exact H1.
    + replace (i + N.of_nat (S k))%N with (N.succ i + N.of_nat k)%N by lia. eapply IH; eauto.
Qed.
