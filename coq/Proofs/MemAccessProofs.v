(** Proofs about Model/MemAccess.v against Model/ClassicalSem.v (C27). *)
From Coq Require Import List NArith ZArith Bool Lia Arith.
From QV Require Import Model.MemAccess Model.ClassicalSem.
Import ListNotations.

(** * Small facts *)

Lemma memN_In : forall n l, memN n l = true <-> In n l.
Proof.
  intros n l; induction l as [|x t IH]; cbn [memN In].
  - split; [discriminate | tauto].
  - destruct (N.eqb_spec n x) as [E|E].
    + subst; split; auto.
    + rewrite IH. split; [auto | intros [H|H]; [congruence | exact H]].
Qed.

Lemma subsetN_spec : forall a b, subsetN a b = true <-> (forall x, In x a -> In x b).
Proof.
  intros a b; unfold subsetN. rewrite forallb_forall.
  split; intros H x Hx; apply memN_In; auto.
Qed.

(** * The iterator yields exactly [memrefs], in order *)

Definition stack_refs (st : list expr) : list mref := flat_map memrefs st.

Lemma esize_pos : forall e, 1 <= esize e.
Proof. destruct e; cbn [esize]; lia. Qed.

Lemma mr_walk_spec : forall fuel e st,
    esize e + stack_size st <= fuel ->
    match mr_walk fuel e st with
    | None => memrefs e ++ stack_refs st = []
    | Some (m, st') =>
        memrefs e ++ stack_refs st = m :: stack_refs st' /\ stack_size st' < esize e + stack_size st
    end.
Proof.
  induction fuel as [|fuel IH]; intros e st Hf.
  - pose proof (esize_pos e). lia.
  - destruct e as [k| |v|m|f e|o e|o l r]; cbn [mr_walk memrefs esize app] in *.
    + destruct st as [|e' st']; [reflexivity|].
      cbn [stack_size fold_right stack_refs flat_map] in *. fold (stack_size st') in *. fold (stack_refs st').
      specialize (IH e' st'). destruct (mr_walk fuel e' st') as [[m st'']|].
      * destruct IH as [H1 H2]; [lia|]. split; [exact H1 | lia].
      * apply IH; lia.
    + destruct st as [|e' st']; [reflexivity|].
      cbn [stack_size fold_right stack_refs flat_map] in *. fold (stack_size st') in *. fold (stack_refs st').
      specialize (IH e' st'). destruct (mr_walk fuel e' st') as [[m st'']|].
      * destruct IH as [H1 H2]; [lia|]. split; [exact H1 | lia].
      * apply IH; lia.
    + destruct st as [|e' st']; [reflexivity|].
      cbn [stack_size fold_right stack_refs flat_map] in *. fold (stack_size st') in *. fold (stack_refs st').
      specialize (IH e' st'). destruct (mr_walk fuel e' st') as [[m0 st'']|].
      * destruct IH as [H1 H2]; [lia|]. split; [exact H1 | lia].
      * apply IH; lia.
    + split; [reflexivity | lia].
    + specialize (IH e st). destruct (mr_walk fuel e st) as [[m st'']|].
      * destruct IH as [H1 H2]; [lia|]. split; [exact H1 | lia].
      * apply IH; lia.
    + specialize (IH e st). destruct (mr_walk fuel e st) as [[m st'']|].
      * destruct IH as [H1 H2]; [lia|]. split; [exact H1 | lia].
      * apply IH; lia.
    + specialize (IH l (r :: st)).
      cbn [stack_size fold_right stack_refs flat_map] in IH. fold (stack_size st) in IH. fold (stack_refs st) in IH.
      rewrite <- app_assoc.
      destruct (mr_walk fuel l (r :: st)) as [[m st'']|].
      * destruct IH as [H1 H2]; [lia|]. split; [exact H1 | lia].
      * apply IH; lia.
Qed.

Lemma mr_collect_spec : forall rounds st,
    stack_size st < rounds -> mr_collect rounds st = stack_refs st.
Proof.
  induction rounds as [|rounds IH]; intros st Hr; [lia|].
  cbn [mr_collect]. destruct st as [|e st]; [reflexivity|].
  pose proof (mr_walk_spec (stack_size (e :: st)) e st) as H.
  cbn [stack_size fold_right] in H, Hr |- *. fold (stack_size st) in *.
  specialize (H (le_n _)).
  cbn [stack_refs flat_map]. fold (stack_refs st).
  destruct (mr_walk (esize e + stack_size st) e st) as [[m st']|].
  - destruct H as [H1 H2]. rewrite H1. f_equal. apply IH. lia.
  - symmetry; exact H.
Qed.

Theorem memrefs_iter_correct : forall e, memrefs_iter e = memrefs e.
Proof.
  intros e. unfold memrefs_iter. rewrite mr_collect_spec.
  - cbn [stack_refs flat_map]. apply app_nil_r.
  - cbn [stack_size fold_right]. lia.
Qed.

(** * CALL: the accumulator loop against a direct description *)

Definition arg_region (a : callarg) : list N :=
  match a with AIdent r => [r] | ARef m => [mreg m] | AImm _ => [] end.

Definition call_reads (args : list callarg) (flags : list (bool * bool)) : list N :=
  flat_map (fun p : callarg * (bool * bool) => arg_region (fst p)) (combine args flags).
Definition call_writes (args : list callarg) (flags : list (bool * bool)) : list N :=
  flat_map (fun p : callarg * (bool * bool) => if fst (snd p) then arg_region (fst p) else [])
           (combine args flags).

Lemma call_params_spec : forall args params rw,
    call_params args params rw
    = (fst rw ++ call_reads args params, snd rw ++ call_writes args params).
Proof.
  induction args as [|a args IH]; intros params rw.
  - cbn. rewrite !app_nil_r. destruct rw; reflexivity.
  - destruct params as [|[mu ve] params].
    + cbn. rewrite !app_nil_r. destruct rw; reflexivity.
    + cbn [call_params]. rewrite IH. unfold call_reads, call_writes.
      cbn [combine flat_map fst snd].
      destruct a as [r|m|k]; destruct mu; cbn [fst snd arg_region app]; rewrite <- ?app_assoc; reflexivity.
Qed.

Lemma call_accesses_spec : forall sigs name args sg,
    sig_lookup sigs name = Some sg ->
    exists R W,
      call_accesses sigs name args = Some (R, W, []) /\
      (forall x, In x R <-> In x (call_reads args (call_flags sg))) /\
      (forall x, In x W <-> In x (call_writes args (call_flags sg))).
Proof.
  intros sigs name args [has_ret params] Hl. unfold call_accesses. rewrite Hl.
  unfold call_flags; cbn [fst snd].
  destruct has_ret.
  - destruct args as [|a rest].
    + cbn. exists [], []. repeat split; intros H; exact H.
    + destruct a as [r|m|k]; rewrite call_params_spec; cbn [fst snd];
        eexists _, _; (split; [reflexivity|]);
        unfold call_reads, call_writes; cbn [app combine flat_map fst snd arg_region];
        split; intros x; reflexivity.
  - cbn [app]. rewrite call_params_spec. cbn [fst snd app].
    eexists _, _. split; [reflexivity|]. split; intros x; reflexivity.
Qed.

Fixpoint fold_ok (sigs : sigmap) (l : list instr) (a : acc) : option acc :=
  match l with
  | [] => Some a
  | x :: t => match accesses sigs x with None => None | Some b => fold_ok sigs t (acc_union a b) end
  end.

Definition block_init (k : bkind) (params : list expr) : acc :=
  match k with KDefCal => read_all (exprs_refs params) | _ => acc_none end.

Lemma accesses_block : forall sigs k ps body,
    accesses sigs (IBlock k ps body) = fold_ok sigs body (block_init k ps).
Proof.
  intros sigs k ps body. cbn [accesses]. fold (block_init k ps). generalize (block_init k ps).
  induction body as [|x t IH]; intros init; cbn [fold_ok]; [reflexivity|].
  destruct (accesses sigs x) as [b|]; [apply IH | reflexivity].
Qed.

Definition acc_le (a b : acc) : Prop :=
  (forall x, In x (a_reads a) -> In x (a_reads b)) /\
  (forall x, In x (a_writes a) -> In x (a_writes b)) /\
  (forall x, In x (a_captures a) -> In x (a_captures b)).

Lemma acc_le_refl : forall a, acc_le a a.
Proof. intros a; repeat split; auto. Qed.

Lemma acc_le_trans : forall a b c, acc_le a b -> acc_le b c -> acc_le a c.
Proof. intros a b c [A1 [A2 A3]] [B1 [B2 B3]]; repeat split; auto. Qed.

Lemma acc_le_union_l : forall a b, acc_le a (acc_union a b).
Proof.
  intros [[r w] c] [[r' w'] c']; unfold acc_le, acc_union, a_reads, a_writes, a_captures; cbn [fst snd].
  repeat split; intros x Hx; apply in_or_app; auto.
Qed.

Lemma acc_le_union_r : forall a b, acc_le b (acc_union a b).
Proof.
  intros [[r w] c] [[r' w'] c']; unfold acc_le, acc_union, a_reads, a_writes, a_captures; cbn [fst snd].
  repeat split; intros x Hx; apply in_or_app; auto.
Qed.

(** a definition's accesses contain its parameters' and every body instruction's accesses, and
    nothing else *)
Lemma fold_ok_spec : forall sigs body init a,
    fold_ok sigs body init = Some a ->
    acc_le init a /\
    (forall x, In x body -> exists b, accesses sigs x = Some b /\ acc_le b a) /\
    (forall r, In r (a_reads a) ->
               In r (a_reads init) \/ exists x b, In x body /\ accesses sigs x = Some b /\ In r (a_reads b)) /\
    (forall r, In r (a_writes a) ->
               In r (a_writes init) \/ exists x b, In x body /\ accesses sigs x = Some b /\ In r (a_writes b)) /\
    (forall r, In r (a_captures a) ->
               In r (a_captures init) \/ exists x b, In x body /\ accesses sigs x = Some b /\ In r (a_captures b)).
Proof.
  intros sigs body; induction body as [|x t IH]; intros init a H; cbn [fold_ok] in H.
  - inversion H; subst. split; [apply acc_le_refl|]. split; [intros x []|].
    repeat split; intros r Hr; left; exact Hr.
  - destruct (accesses sigs x) as [b|] eqn:E; [|discriminate].
    destruct (IH _ _ H) as [Hle [Hbody [HR [HW HC]]]].
    split; [eapply acc_le_trans; [apply acc_le_union_l | exact Hle]|].
    split.
    { intros y [<-|Hy].
      - exists b. split; [exact E|]. eapply acc_le_trans; [apply acc_le_union_r | exact Hle].
      - apply Hbody; exact Hy. }
    assert (U : forall (sel : acc -> list N) r,
               (sel = a_reads \/ sel = a_writes \/ sel = a_captures) ->
               In r (sel (acc_union init b)) -> In r (sel init) \/ In r (sel b)).
    { intros sel r Hs Hin. destruct init as [[r1 w1] c1], b as [[r2 w2] c2].
      destruct Hs as [->|[->| ->]]; unfold acc_union, a_reads, a_writes, a_captures in *;
        cbn [fst snd] in *; apply in_app_or in Hin; exact Hin. }
    repeat split; intros r Hr.
    + destruct (HR r Hr) as [Hi|[y [c [Hy [Ey Hc]]]]].
      * destruct (U a_reads r (or_introl eq_refl) Hi) as [Hi'|Hi']; [left; exact Hi'|].
        right. exists x, b. split; [left; reflexivity|]. split; assumption.
      * right. exists y, c. split; [right; exact Hy|]. split; assumption.
    + destruct (HW r Hr) as [Hi|[y [c [Hy [Ey Hc]]]]].
      * destruct (U a_writes r (or_intror (or_introl eq_refl)) Hi) as [Hi'|Hi']; [left; exact Hi'|].
        right. exists x, b. split; [left; reflexivity|]. split; assumption.
      * right. exists y, c. split; [right; exact Hy|]. split; assumption.
    + destruct (HC r Hr) as [Hi|[y [c [Hy [Ey Hc]]]]].
      * destruct (U a_captures r (or_intror (or_intror eq_refl)) Hi) as [Hi'|Hi']; [left; exact Hi'|].
        right. exists x, b. split; [left; reflexivity|]. split; assumption.
      * right. exists y, c. split; [right; exact Hy|]. split; assumption.
Qed.

Theorem block_union : forall sigs k ps body a,
    accesses sigs (IBlock k ps body) = Some a ->
    acc_le (block_init k ps) a /\
    (forall x, In x body -> exists b, accesses sigs x = Some b /\ acc_le b a) /\
    (forall r, In r (a_reads a) ->
       In r (a_reads (block_init k ps)) \/ exists x b, In x body /\ accesses sigs x = Some b /\ In r (a_reads b)) /\
    (forall r, In r (a_writes a) -> exists x b, In x body /\ accesses sigs x = Some b /\ In r (a_writes b)) /\
    (forall r, In r (a_captures a) -> exists x b, In x body /\ accesses sigs x = Some b /\ In r (a_captures b)).
Proof.
  intros sigs k ps body a H. rewrite accesses_block in H.
  destruct (fold_ok_spec _ _ _ _ H) as [H1 [H2 [H3 [H4 H5]]]].
  split; [exact H1|]. split; [exact H2|]. split; [exact H3|].
  split; intros r Hr.
  - destruct (H4 r Hr) as [Hi|Hx]; [|exact Hx]. destruct k; cbn in Hi; contradiction.
  - destruct (H5 r Hr) as [Hi|Hx]; [|exact Hx]. destruct k; cbn in Hi; contradiction.
Qed.

Theorem block_error : forall sigs k ps body,
    accesses sigs (IBlock k ps body) = None <-> exists x, In x body /\ accesses sigs x = None.
Proof.
  intros sigs k ps body. rewrite accesses_block. generalize (block_init k ps).
  induction body as [|x t IH]; intros init; cbn [fold_ok].
  - split; [discriminate | intros [x [[] _]]].
  - destruct (accesses sigs x) as [b|] eqn:E.
    + rewrite IH. split.
      * intros [y [Hy Ey]]. exists y. split; [right; exact Hy | exact Ey].
      * intros [y [[<-|Hy] Ey]]; [congruence|]. exists y; split; assumption.
    + split; [|reflexivity]. intros _. exists x. split; [left; reflexivity | exact E].
Qed.

(** * Expressions: every memory reference of every embedded expression is reported as read *)

Lemma fold_union_reads : forall (l : list acc) (init : acc) x,
    In x (a_reads (fold_left acc_union l init)) <-> In x (a_reads init) \/ exists b, In b l /\ In x (a_reads b).
Proof.
  induction l as [|b t IH]; intros init x; cbn [fold_left].
  - split; [auto | intros [H|[b [[] _]]]; exact H].
  - rewrite IH. destruct init as [[r w] c], b as [[r' w'] c'].
    unfold acc_union, a_reads; cbn [fst snd]. rewrite in_app_iff. split.
    + intros [[H|H]|[b [Hb Hx]]]; [left; exact H | right; eexists; split; [left; reflexivity | exact H] |
                                    right; exists b; split; [right; exact Hb | exact Hx]].
    + intros [H|[b [[<-|Hb] Hx]]]; [left; left; exact H | left; right; exact Hx |
                                     right; exists b; split; assumption].
Qed.

Theorem exprs_reported : forall sigs i a e m,
    accesses sigs i = Some a -> In e (instr_exprs i) -> In m (memrefs e) -> In (mreg m) (a_reads a).
Proof.
  intros sigs i a e m Ha He Hm.
  assert (G : forall es, In e es -> In (mreg m) (map mreg (exprs_refs es))).
  { intros es Hes. apply in_map. unfold exprs_refs. apply in_flat_map. exists e; split; assumption. }
  destruct i; cbn [instr_exprs] in He; try contradiction.
  - cbn in Ha. inversion Ha; subst. apply G; exact He.
  - cbn in Ha. inversion Ha; subst. apply G; exact He.
  - cbn in Ha. inversion Ha; subst. destruct He as [<-|[]]. unfold a_reads; cbn [fst]. apply in_map; exact Hm.
  - cbn [accesses] in Ha. inversion Ha; subst. apply fold_union_reads. right.
    apply in_concat in He. destruct He as [ps [Hps Hein]].
    exists (read_all (exprs_refs ps)). split; [apply in_map_iff; exists ps; split; [reflexivity | exact Hps]|].
    apply G; exact Hein.
  - destruct k; try contradiction.
    destruct (block_union _ _ _ _ _ Ha) as [[H1 _] _]. apply H1. cbn [block_init]. apply G; exact He.
Qed.

Lemma combine_nth_error : forall (A B : Type) (l : list A) (l' : list B) n x y,
    nth_error l n = Some x -> nth_error l' n = Some y -> In (x, y) (combine l l').
Proof.
  induction l as [|a t IH]; intros l' n x y Hx Hy; destruct n; cbn in Hx; try discriminate;
    destruct l' as [|b t']; cbn in Hy; try discriminate; cbn [combine In].
  - inversion Hx; inversion Hy; subst. left; reflexivity.
  - right. eapply IH; eassumption.
Qed.

Lemma In_combine_nth_error : forall (A B : Type) (l : list A) (l' : list B) x y,
    In (x, y) (combine l l') -> exists n, nth_error l n = Some x /\ nth_error l' n = Some y.
Proof.
  induction l as [|a t IH]; intros l' x y H; [contradiction|].
  destruct l' as [|b t']; [contradiction|]. destruct H as [H|H].
  - inversion H; subst. exists 0; split; reflexivity.
  - destruct (IH t' x y H) as [n [H1 H2]]. exists (S n); split; assumption.
Qed.

(** * Semantic theorems, for every interpretation of the symbols *)
Section SemProofs.
  Variable V : Type.
  Variable lit : N -> V.
  Variable pi_v : V.
  Variable var_v : N -> V.
  Variable fun_sem prefix_sem : N -> V -> V.
  Variable infix_sem : N -> V -> V -> V.
  Variable arith_sem logic_sem cmp_sem : N -> V -> V -> V.
  Variable unary_sem : N -> V -> V.
  Variable convert_sem : V -> V.
  Variable truthy : V -> bool.
  Variable to_index : V -> N.
  Variable len : N -> nat.
  Variable incoming : list V.
  Variable extern_sem : N -> list (argval V) -> list (argval V).

  Notation state := (state V).
  Notation agree_on := (agree_on V).
  Notation eval := (eval V lit pi_v var_v fun_sem prefix_sem infix_sem).
  Notation exec := (exec V lit pi_v var_v fun_sem prefix_sem infix_sem arith_sem logic_sem cmp_sem
                         unary_sem convert_sem truthy to_index len incoming extern_sem).
  Notation step := (step V).

  Lemma eval_agree : forall (s1 s2 : state) e,
      agree_on (map mreg (memrefs e)) s1 s2 -> eval s1 e = eval s2 e.
  Proof.
    intros s1 s2 e; induction e as [k| |v|m|f e IH|o e IH|o l IHl r IHr]; intros H;
      cbn [eval memrefs] in *; try reflexivity.
    - unfold rd. apply H. left; reflexivity.
    - rewrite IH; [reflexivity | exact H].
    - rewrite IH; [reflexivity | exact H].
    - rewrite map_app in H. rewrite IHl, IHr; [reflexivity | |];
        intros x i Hx; apply H; apply in_or_app; auto.
  Qed.

  Lemma evals_agree : forall (s1 s2 : state) es,
      agree_on (map mreg (exprs_refs es)) s1 s2 -> map (eval s1) es = map (eval s2) es.
  Proof.
    intros s1 s2 es H. apply map_ext_in. intros e He. apply eval_agree.
    intros r i Hr. apply H. apply in_map_iff in Hr. destruct Hr as [m [<- Hm]].
    apply in_map. unfold exprs_refs. apply in_flat_map. exists e; split; assumption.
  Qed.

  Lemma arg_view_agree : forall (s1 s2 : state) a v,
      agree_on (arg_region a) s1 s2 -> arg_view V lit len s1 a v = arg_view V lit len s2 a v.
  Proof.
    intros s1 s2 [r|m|k] v H; cbn [arg_view arg_region] in *.
    - destruct v.
      + f_equal. unfold region_view. apply map_ext. intros j. apply H. left; reflexivity.
      + f_equal. apply H. left; reflexivity.
    - f_equal. unfold rd. apply H. left; reflexivity.
    - reflexivity.
  Qed.

  Lemma call_views_agree : forall (s1 s2 : state) args flags,
      agree_on (call_reads args flags) s1 s2 ->
      call_views V lit len s1 args flags = call_views V lit len s2 args flags.
  Proof.
    intros s1 s2 args flags H. unfold call_views. apply map_ext_in. intros [a [w v]] Hin.
    cbn [fst snd]. apply arg_view_agree. intros r i Hr. apply H.
    unfold call_reads. apply in_flat_map. exists (a, (w, v)). split; [exact Hin | exact Hr].
  Qed.

  (** SOUNDNESS: memories that agree on the reported [reads] make the instruction do the same
      thing — same assignments, same captures, same branch decision, same values handed on. *)
  Theorem exec_sound : forall sigs i a (s1 s2 : state),
      accesses sigs i = Some a -> agree_on (a_reads a) s1 s2 -> exec sigs i s1 = exec sigs i s2.
  Proof.
    intros sigs i a s1 s2 Ha Hag.
    destruct i as [d s|d s|op d s|op d s|op m|l r|c|c|op d l r|k es|t es|t dur|t|name args|d src off|dst off s|k|gates|k ps body];
      cbn [accesses] in Ha; cbn [exec];
      try (inversion Ha; subst; clear Ha;
           repeat match goal with o : operand |- _ => destruct o end;
           unfold like_move, binary, read_write, read_one, accesses_with_operand, access_operand,
             access_opt, operand_ref, access, accesses2, a_reads, opval, rd, mreg in *;
           cbn [fst snd] in Hag;
           rewrite ?Hag by (cbn [In]; auto); reflexivity).
    - inversion Ha; subst. rewrite (evals_agree s1 s2 es Hag). reflexivity.
    - inversion Ha; subst. rewrite (evals_agree s1 s2 es Hag). reflexivity.
    - inversion Ha; subst. rewrite (eval_agree s1 s2 dur Hag). reflexivity.
    - unfold exec_call.
      destruct (sig_lookup sigs name) as [sg|] eqn:El; [|reflexivity].
      destruct (call_accesses_spec sigs name args sg El) as [R [W [E [HR HW]]]].
      rewrite E in Ha. inversion Ha; subst.
      destruct (Nat.eqb (length args) (length (call_flags sg))); [|reflexivity].
      rewrite (call_views_agree s1 s2 args (call_flags sg)); [reflexivity|].
      intros r i Hr. apply Hag. unfold a_reads; cbn [fst]. apply HR; exact Hr.
  Qed.

  Definition writes_within (ws : list (mref * V)) (rs : list N) : Prop :=
    forall m v, In (m, v) ws -> In (mreg m) rs.

  Lemma indexed_region : forall r base vs m v,
      In (m, v) (indexed V r base vs) -> mreg m = r.
  Proof.
    intros r base vs m v H. unfold indexed in H. apply in_map_iff in H.
    destruct H as [[j x] [E _]]. inversion E; subst. reflexivity.
  Qed.

  Lemma call_writebacks_within : forall args flags res,
      writes_within (call_writebacks V args flags res) (call_writes args flags).
  Proof.
    intros args flags res m v H. unfold call_writebacks in H. apply in_flat_map in H.
    destruct H as [[[a [w ve]] rv] [Hin Hm]]. cbn [fst snd] in Hm.
    destruct w; [|contradiction].
    apply in_combine_l in Hin.
    unfold call_writes. apply in_flat_map. exists (a, (true, ve)). split; [exact Hin|].
    cbn [fst snd]. destruct a as [r|m0|k], rv as [x|xs]; cbn [arg_writeback arg_region] in *.
    - destruct Hm as [E|[]]. inversion E; subst. left; reflexivity.
    - apply indexed_region in Hm. left; symmetry; exact Hm.
    - destruct Hm as [E|[]]. inversion E; subst. left; reflexivity.
    - contradiction.
    - contradiction.
    - contradiction.
  Qed.

  (** FRAME: every cell the instruction assigns lies in a region reported as written; every cell
      filled from outside lies in a region reported as captured. *)
  Theorem exec_frame : forall sigs i a (s : state) o,
      accesses sigs i = Some a -> exec sigs i s = Some o ->
      writes_within (o_upd o) (a_writes a) /\ writes_within (o_cap o) (a_captures a).
  Proof.
    intros sigs i a s o Ha He.
    destruct i as [d s0|d s0|op d s0|op d s0|op m|l r|c|c|op d l r|k es|t es|t dur|t|name args|d src off|dst off s0|k|gates|k ps body];
      cbn [accesses] in Ha; cbn [exec] in He;
      try (match type of Ha with Some _ = Some _ => idtac end;
           inversion Ha; subst; clear Ha; inversion He; subst; clear He;
           unfold writes_within, assign, no_effect, like_move, binary, read_write, read_one, read_all,
             access, accesses2, a_writes, a_captures, first_incoming;
           cbn [o_upd o_cap fst snd];
           split; intros m0 v0 Hin;
           repeat (destruct Hin as [Hin|Hin]; [inversion Hin; subst; cbn; auto|]); try contradiction).
    - (* capture *) destruct incoming as [|x xs]; [contradiction|].
      destruct Hin as [Hin|[]]. inversion Hin; subst. left; reflexivity.
    - (* raw capture *) apply indexed_region in Hin. left; symmetry; exact Hin.
    - (* measure *) destruct t as [t|]; [|contradiction].
      destruct incoming as [|x xs]; [contradiction|].
      destruct Hin as [Hin|[]]. inversion Hin; subst. left; reflexivity.
    - (* call *)
      unfold exec_call in He.
      destruct (sig_lookup sigs name) as [sg|] eqn:El; [|discriminate].
      destruct (call_accesses_spec sigs name args sg El) as [R [W [E [HR HW]]]].
      rewrite E in Ha. inversion Ha; subst.
      destruct (Nat.eqb (length args) (length (call_flags sg))); [|discriminate].
      inversion He; subst. unfold assign; cbn [o_upd o_cap].
      split; [|intros m v []].
      intros m v Hin. unfold a_writes; cbn [fst snd]. apply HW.
      eapply call_writebacks_within; exact Hin.
    - (* definitions: never executed *)
      inversion He; subst. split; intros m v [].
  Qed.

  Lemma write1_other : forall (s : state) ws r j,
      (forall m v, In (m, v) ws -> mreg m <> r) -> fold_left (write1 V) ws s r j = s r j.
  Proof.
    intros s ws; revert s; induction ws as [|[m v] t IH]; intros s r j H; cbn [fold_left]; [reflexivity|].
    rewrite IH; [|intros m' v' Hin; apply (H m' v'); right; exact Hin].
    unfold write1; cbn [fst snd].
    destruct (N.eqb_spec r (fst m)) as [E|E]; [|reflexivity].
    exfalso. apply (H m v); [left; reflexivity | symmetry; exact E].
  Qed.

  (** Regions outside writes ∪ captures are left unchanged by executing the instruction. *)
  Theorem step_frame : forall sigs i a (s : state) o r j,
      accesses sigs i = Some a -> exec sigs i s = Some o ->
      ~ In r (a_writes a ++ a_captures a) -> step s o r j = s r j.
  Proof.
    intros sigs i a s o r j Ha He Hn. destruct (exec_frame _ _ _ _ _ Ha He) as [HW HC].
    unfold step. rewrite write1_other, write1_other; [reflexivity| |].
    - intros m v Hin E. apply Hn. apply in_or_app. left. rewrite <- E. eapply HW; exact Hin.
    - intros m v Hin E. apply Hn. apply in_or_app. right. rewrite <- E. eapply HC; exact Hin.
  Qed.

  (** Soundness and frame carry over to any reported triple that contains the table's sets —
      which is what the instance checker establishes for the implementation's output. *)
  Theorem chk_access_sound : forall sigs i o,
      chk_access sigs i (Some o) <> 2%N ->
      (forall (s1 s2 : state), agree_on (a_reads o) s1 s2 -> exec sigs i s1 = exec sigs i s2) /\
      (forall (s : state) oc, exec sigs i s = Some oc ->
          writes_within (o_upd oc) (a_writes o) /\ writes_within (o_cap oc) (a_captures o)).
  Proof.
    intros sigs i o H. unfold chk_access in H.
    destruct (accesses sigs i) as [a|] eqn:Ea; [|congruence].
    destruct (subsetN (a_reads a) (a_reads o) && subsetN (a_writes a) (a_writes o)
              && subsetN (a_captures a) (a_captures o)) eqn:Es; [|congruence].
    rewrite !andb_true_iff, !subsetN_spec in Es. destruct Es as [[Hr Hw] Hc].
    split.
    - intros s1 s2 Hag. apply (exec_sound sigs i a s1 s2 Ea).
      intros r j Hin. apply Hag. apply Hr; exact Hin.
    - intros s oc He. destruct (exec_frame sigs i a s oc Ea He) as [HW HC].
      split; intros m v Hin; [apply Hw; eapply HW | apply Hc; eapply HC]; exact Hin.
  Qed.

End SemProofs.

  (** CALL in the property's words. *)
  Theorem call_accesses_rule : forall sigs name args sg a,
      sig_lookup sigs name = Some sg -> length args = length (call_flags sg) ->
      accesses sigs (ICall name args) = Some a ->
      (* every passed region is read *)
      (forall x r, In x args -> In r (arg_region x) -> In r (a_reads a)) /\
      (* the return slot is written *)
      (fst sg = true -> forall x r, nth_error args 0 = Some x -> In r (arg_region x) -> In r (a_writes a)) /\
      (* every region passed to a mutable parameter is written *)
      (forall n x p r, nth_error args (n + (if fst sg then 1 else 0)) = Some x -> nth_error (snd sg) n = Some p ->
                       fst p = true -> In r (arg_region x) -> In r (a_writes a)) /\
      (* nothing else is read or written, nothing is captured *)
      (forall r, In r (a_reads a) -> exists x, In x args /\ In r (arg_region x)) /\
      (forall r, In r (a_writes a) -> exists n x w, nth_error args n = Some x /\
                                       nth_error (call_flags sg) n = Some w /\ fst w = true /\ In r (arg_region x)) /\
      a_captures a = [].
  Proof.
    intros sigs name args sg a Hl Hlen Ha. cbn [accesses] in Ha.
    destruct (call_accesses_spec sigs name args sg Hl) as [R [W [E [HR HW]]]].
    rewrite E in Ha. inversion Ha; subst. unfold a_reads, a_writes, a_captures; cbn [fst snd].
    assert (Hcomb : forall n x w, nth_error args n = Some x -> nth_error (call_flags sg) n = Some w ->
                                  In (x, w) (combine args (call_flags sg))).
    { intros n x w; apply combine_nth_error. }
    assert (Hnth : forall x y, In (x, y) (combine args (call_flags sg)) ->
                               exists n, nth_error args n = Some x /\ nth_error (call_flags sg) n = Some y).
    { intros x y; apply In_combine_nth_error. }
    repeat split.
    - intros x r Hx Hr. apply HR. unfold call_reads. apply in_flat_map.
      apply In_nth_error in Hx. destruct Hx as [n Hn].
      assert (Hlt : n < length (call_flags sg)).
      { rewrite <- Hlen. apply nth_error_Some. congruence. }
      destruct (nth_error (call_flags sg) n) as [w|] eqn:Ew; [|apply nth_error_None in Ew; lia].
      exists (x, w). split; [eapply Hcomb; eassumption | exact Hr].
    - intros Hret x r Hx Hr. apply HW. unfold call_writes. apply in_flat_map.
      exists (x, (true, false)). split; [|exact Hr].
      apply (Hcomb 0 x (true, false) Hx). unfold call_flags. rewrite Hret. reflexivity.
    - intros n x p r Hx Hp Hmut Hr. apply HW. unfold call_writes. apply in_flat_map.
      exists (x, p). split; [|cbn [fst snd]; rewrite Hmut; exact Hr].
      apply (Hcomb _ x p Hx). unfold call_flags. destruct (fst sg); cbn [app].
      + rewrite Nat.add_1_r. exact Hp.
      + rewrite Nat.add_0_r. exact Hp.
    - intros r Hr. apply HR in Hr. unfold call_reads in Hr. apply in_flat_map in Hr.
      destruct Hr as [[x w] [Hin Hr]]. exists x. split; [eapply in_combine_l; exact Hin | exact Hr].
    - intros r Hr. apply HW in Hr. unfold call_writes in Hr. apply in_flat_map in Hr.
      destruct Hr as [[x w] [Hin Hr]]. cbn [fst snd] in Hr.
      destruct (fst w) eqn:Ew; [|contradiction].
      destruct (Hnth x w Hin) as [n [H1 H2]]. exists n, x, w. repeat split; assumption.
  Qed.

  Theorem call_error_iff_unknown : forall sigs name args,
      accesses sigs (ICall name args) = None <-> sig_lookup sigs name = None.
  Proof.
    intros sigs name args. cbn [accesses]. unfold call_accesses.
    destruct (sig_lookup sigs name) as [[hr ps]|]; [|tauto].
    split; [|discriminate].
    destruct hr; [destruct args as [|[r|m|k] rest]|]; discriminate.
  Qed.


Theorem chk_access_exact : forall sigs i o,
    chk_access sigs i (Some o) = 0%N ->
    exists a, accesses sigs i = Some a /\
              (forall r, In r (a_reads o) <-> In r (a_reads a)) /\
              (forall r, In r (a_writes o) <-> In r (a_writes a)) /\
              (forall r, In r (a_captures o) <-> In r (a_captures a)).
Proof.
  intros sigs i o H. unfold chk_access in H.
  destruct (accesses sigs i) as [a|] eqn:Ea; [|discriminate].
  destruct (subsetN (a_reads a) (a_reads o) && subsetN (a_writes a) (a_writes o)
            && subsetN (a_captures a) (a_captures o)) eqn:Es; [|discriminate].
  destruct (subsetN (a_reads o) (a_reads a) && subsetN (a_writes o) (a_writes a)
            && subsetN (a_captures o) (a_captures a)) eqn:Es'; [|discriminate].
  rewrite !andb_true_iff, !subsetN_spec in Es, Es'.
  destruct Es as [[Hr Hw] Hc], Es' as [[Hr' Hw'] Hc'].
  exists a. split; [reflexivity|]. repeat split; auto.
Qed.

Theorem chk_access_error : forall sigs i,
    chk_access sigs i None = 0%N -> accesses sigs i = None.
Proof.
  intros sigs i H. unfold chk_access in H. destruct (accesses sigs i); [discriminate | reflexivity].
Qed.

(** regression: the pre-fix table misses the references of DEFFRAME attribute expressions and
    PAULI-SUM coefficients (finding C27-unscanned-definition-exprs, fixed by 5c78b87) *)
Theorem unfixed_table_refuted :
  exists sigs i a e m,
    accesses_unfixed sigs i = Some a /\ In e (instr_exprs i) /\ In m (memrefs e) /\ ~ In (mreg m) (a_reads a).
Proof.
  exists [], (IExprs KDefGatePauliSum [EInfix 4 (EAddr (0, 0)%N) (EVar 0)]), acc_none,
    (EInfix 4 (EAddr (0, 0)%N) (EVar 0)), (0, 0)%N.
  split; [reflexivity|]. split; [left; reflexivity|]. split; [left; reflexivity|]. intros [].
Qed.

(** * Tightness (over the concrete interpretation [ZSem]) *)

Lemma ws_eqb_refl : forall l, ZSem.ws_eqb l l = true.
Proof.
  induction l as [|[[r i] v] t IH]; cbn [ZSem.ws_eqb]; [reflexivity|].
  rewrite !N.eqb_refl, Z.eqb_refl, IH. reflexivity.
Qed.

Lemma zs_eqb_refl : forall l, ZSem.zs_eqb l l = true.
Proof. induction l as [|x t IH]; cbn [ZSem.zs_eqb]; [reflexivity|]. rewrite Z.eqb_refl, IH; reflexivity. Qed.

Lemma outcome_eqb_refl : forall o, ZSem.outcome_eqb o o = true.
Proof.
  intros [o|]; cbn [ZSem.outcome_eqb]; [|reflexivity].
  rewrite !ws_eqb_refl, zs_eqb_refl. destruct (o_branch o) as [[|]|]; reflexivity.
Qed.

Definition Tight (sigs : sigmap) (i : instr) : Prop :=
  exists a, accesses sigs i = Some a /\
    (* every reported read matters: changing that region alone changes what the instruction does *)
    (forall r, In r (a_reads a) ->
       exists (s : ZSem.zstate) alt, ZSem.exec sigs i s <> ZSem.exec sigs i (override Z s r alt)) /\
    (* every reported write / capture happens *)
    (forall r, In r (a_writes a) ->
       exists (s : ZSem.zstate) o m v, ZSem.exec sigs i s = Some o /\ In (m, v) (o_upd o) /\ mreg m = r) /\
    (forall r, In r (a_captures a) ->
       exists (s : ZSem.zstate) o m v, ZSem.exec sigs i s = Some o /\ In (m, v) (o_cap o) /\ mreg m = r).

Lemma tight_sound : forall sigs i, ZSem.tight sigs i = true -> Tight sigs i.
Proof.
  intros sigs i H. unfold ZSem.tight in H.
  destruct (accesses sigs i) as [a|] eqn:Ea; [|discriminate].
  rewrite !andb_true_iff, !forallb_forall in H. destruct H as [[HR HW] HC].
  exists a. split; [exact Ea|]. repeat split.
  - intros r Hr. specialize (HR r Hr). unfold ZSem.read_matters in HR.
    apply existsb_exists in HR. destruct HR as [[s alt] [_ Hne]]. cbn [fst snd] in Hne.
    exists s, alt. intros E. rewrite <- E in Hne. rewrite outcome_eqb_refl in Hne. discriminate.
  - intros r Hr. specialize (HW r Hr). unfold ZSem.written_somewhere in HW.
    destruct (ZSem.exec sigs i ZSem.zero) as [o|] eqn:Ee; [|discriminate].
    apply existsb_exists in HW. destruct HW as [[m v] [Hin Hm]]. cbn [fst] in Hm.
    exists ZSem.zero, o, m, v. split; [exact Ee|]. split; [exact Hin | apply N.eqb_eq; exact Hm].
  - intros r Hr. specialize (HC r Hr). unfold ZSem.written_somewhere in HC.
    destruct (ZSem.exec sigs i ZSem.zero) as [o|] eqn:Ee; [|discriminate].
    apply existsb_exists in HC. destruct HC as [[m v] [Hin Hm]]. cbn [fst] in Hm.
    exists ZSem.zero, o, m, v. split; [exact Ee|]. split; [exact Hin | apply N.eqb_eq; exact Hm].
Qed.

(** the executable kinds, by constructor *)
Definition ctor_id (i : instr) : nat :=
  match i with
  | IConvert _ _ => 0 | IMove _ _ => 1 | IBinaryLogic _ _ _ => 2 | IArithmetic _ _ _ => 3
  | IUnaryLogic _ _ => 4 | IExchange _ _ => 5 | IJumpWhen _ => 6 | IJumpUnless _ => 7
  | IComparison _ _ _ _ => 8 | IExprs _ _ => 9 | ICapture _ _ => 10 | IRawCapture _ _ => 11
  | IMeasure _ => 12 | ICall _ _ => 13 | ILoad _ _ _ => 14 | IStore _ _ _ => 15
  | INoAccess _ => 16 | IDefGateSeq _ => 17 | IBlock _ _ _ => 18
  end.

Theorem witnesses_tight : Forall (Tight ZSem.wsigs) ZSem.witnesses.
Proof.
  apply Forall_forall. intros i Hi. apply tight_sound.
  assert (H : forallb (ZSem.tight ZSem.wsigs) ZSem.witnesses = true) by (vm_compute; reflexivity).
  rewrite forallb_forall in H. apply H; exact Hi.
Qed.

Theorem witnesses_cover : forall k, k < 16 -> exists i, In i ZSem.witnesses /\ ctor_id i = k.
Proof.
  intros k Hk.
  assert (H : forallb (fun k => existsb (fun i => Nat.eqb (ctor_id i) k) ZSem.witnesses) (seq 0 16) = true)
    by (vm_compute; reflexivity).
  rewrite forallb_forall in H. specialize (H k). rewrite in_seq in H.
  specialize (H (conj (Nat.le_0_l k) Hk)). apply existsb_exists in H.
  destruct H as [i [Hi E]]. exists i. split; [exact Hi | apply Nat.eqb_eq; exact E].
Qed.
