(** Proofs about Model/DefaultInfo.v: the summaries the DEFAULT handler reports are well formed in
    the sense the dependency-graph theorems (C22 / C24) assume, for every program and block; and
    the frame conflicts of Model/Graph.v on those summaries are the frame conflicts of the
    Quil-T frames themselves. *)
From Coq Require Import List NArith Bool Lia Relations.
From QV Require Import Model.DepQueue Model.Frames Model.Graph Model.DefaultInfo.
From QV Require Proofs.DepQueueProofs Proofs.FramesProofs.
From QV Require Import Proofs.GraphProofs Proofs.GraphReachProofs Proofs.GraphBlockProofs
  Proofs.GraphPermProofs.
Import ListNotations.
Local Open Scope N_scope.

Module FP := Proofs.FramesProofs.
Module DP := Proofs.DepQueueProofs.

(** * The numbering is injective on the defined frames *)

Lemma findex_inj keys f g :
  In f keys -> findex keys f = findex keys g -> f = g.
Proof.
  induction keys as [|h t IH]; intros Hin Heq; [destruct Hin|].
  cbn [findex] in Heq.
  destruct (frame_eqb f h) eqn:Ef.
  - apply FP.frame_eqb_eq in Ef. subst h.
    destruct (frame_eqb g f) eqn:Eg.
    + apply FP.frame_eqb_eq in Eg. congruence.
    + exfalso. destruct (findex t g); cbn in Heq; discriminate.
  - destruct (frame_eqb g h) eqn:Eg.
    + exfalso. destruct (findex t f); cbn in Heq; discriminate.
    + apply N.succ_inj in Heq. apply IH; [|exact Heq].
      destruct Hin as [Hh|Hin]; [|exact Hin].
      subst h. rewrite FP.frame_eqb_refl in Ef. discriminate.
Qed.

Lemma NoDup_map_inj_on {A B} (f : A -> B) (l : list A) :
  (forall x y, In x l -> In y l -> f x = f y -> x = y) -> NoDup l -> NoDup (map f l).
Proof.
  induction l as [|a t IH]; intros Hinj Hnd; cbn [map]; [constructor|].
  inversion Hnd as [|a' t' Hnot Hnd']; subst.
  constructor.
  - intros Hin. apply in_map_iff in Hin. destruct Hin as [y [Hy Hyin]].
    assert (y = a) by (apply Hinj; [right; exact Hyin | left; reflexivity | exact Hy]).
    subst y. contradiction.
  - apply IH; [|exact Hnd'].
    intros x y Hx Hy. apply Hinj; right; assumption.
Qed.

(** * The answers of [matching_frames] are duplicate-free when the keys are *)

Lemma NoDup_dedupF l : NoDup (dedupF l).
Proof.
  induction l as [|f t IH]; cbn [dedupF]; [constructor|].
  destruct (memF f t) eqn:E; [exact IH|].
  constructor; [|exact IH].
  rewrite FP.In_dedupF. apply FP.memF_false. exact E.
Qed.

Lemma NoDup_fold_inter els : forall acc, NoDup acc -> NoDup (fold_left inter els acc).
Proof.
  induction els as [|e t IH]; intros acc Hacc; cbn [fold_left]; [exact Hacc|].
  apply IH. unfold inter. apply NoDup_filter. exact Hacc.
Qed.

Lemma NoDup_matching keys c : NoDup keys -> NoDup (matching keys c).
Proof.
  intros Hk. induction c as [ | ns | qs | qs | g | cs IH | cs IH ] using FP.cond_ind';
    cbn [matching]; try (apply NoDup_filter; exact Hk).
  - exact Hk.
  - destruct cs as [|c0 rest]; [constructor|].
    apply NoDup_fold_inter. inversion IH; assumption.
  - apply NoDup_dedupF.
Qed.

Lemma NoDup_filter_frames keys cs u b :
  NoDup keys -> filter_frames keys cs = (u, b) -> NoDup u /\ NoDup b.
Proof.
  intros Hk H. destruct cs as [cu cb]. unfold filter_frames in H.
  inversion H as [[Hu Hb]]; clear H. split.
  - destruct cu as [c|]; [apply NoDup_matching; exact Hk | constructor].
  - destruct cb as [c|]; [|constructor].
    match goal with |- NoDup (if ?x then _ else _) => destruct x end.
    + apply NoDup_matching; exact Hk.
    + apply NoDup_filter. apply NoDup_matching; exact Hk.
Qed.

Lemma NoDup_matching_frames keys avail i u b :
  NoDup keys -> matching_frames keys avail i = Some (u, b) -> NoDup u /\ NoDup b.
Proof.
  intros Hk H. unfold matching_frames in H.
  destruct (default_conds avail i) as [cs|]; cbn [option_map] in H; [|discriminate].
  apply (NoDup_filter_frames keys cs); [exact Hk | congruence].
Qed.

Lemma NoDup_app_disjoint {A} (u b : list A) :
  NoDup u -> NoDup b -> (forall x, In x u -> In x b -> False) -> NoDup (u ++ b).
Proof.
  induction u as [|a t IH]; intros Hu Hb Hd; cbn [app]; [exact Hb|].
  inversion Hu as [|a' t' Hnot Hu']; subst. constructor.
  - rewrite in_app_iff. intros [H|H]; [contradiction|].
    apply (Hd a); [left; reflexivity | exact H].
  - apply IH; [exact Hu' | exact Hb|]. intros x Hx. apply Hd. right; exact Hx.
Qed.

(** used ++ blocked, as frame numbers, is a duplicate-free list: [used] and [blocked] are sets
    and they are disjoint (C26_disjoint), and the numbering is injective on defined frames
    (C26_defined). *)
Lemma default_frames_info_nodup keys avail i u b :
  NoDup keys -> default_frames_info keys avail i = (u, b) -> NoDup (u ++ b).
Proof.
  intros Hk H. unfold default_frames_info in H.
  destruct (matching_frames keys avail i) as [[fu fb]|] eqn:E.
  - inversion H; subst; clear H. rewrite <- map_app.
    destruct (NoDup_matching_frames keys avail i fu fb Hk E) as [Hu Hb].
    apply NoDup_map_inj_on.
    + intros x y Hx _. apply findex_inj.
      apply (FP.matching_frames_defined keys avail i fu fb E).
      apply in_app_iff in Hx. exact Hx.
    + apply NoDup_app_disjoint; [exact Hu | exact Hb|].
      exact (FP.matching_frames_disjoint keys avail i fu fb E).
  - inversion H; subst. constructor.
Qed.

Lemma default_info_fields keys avail d :
  i_role (default_info keys avail d) = d_role d /\
  i_sched (default_info keys avail d) = d_sched d /\
  (i_used (default_info keys avail d), i_blocked (default_info keys avail d))
  = default_frames_info keys avail (d_frame d).
Proof.
  unfold default_info.
  destruct (default_frames_info keys avail (d_frame d)) as [u b].
  destruct (d_mem d) as [[[r w] c]|]; cbn; auto.
Qed.

Lemma default_info_role keys avail d : i_role (default_info keys avail d) = d_role d.
Proof. apply default_info_fields. Qed.
Lemma default_info_sched keys avail d : i_sched (default_info keys avail d) = d_sched d.
Proof. apply default_info_fields. Qed.
Lemma default_info_frames keys avail d :
  (i_used (default_info keys avail d), i_blocked (default_info keys avail d))
  = default_frames_info keys avail (d_frame d).
Proof. apply default_info_fields. Qed.

Lemma default_info_wf_info keys avail d :
  NoDup keys -> wf_info (default_info keys avail d) = true.
Proof.
  intros Hk. unfold wf_info. destruct (i_role (default_info keys avail d)); try reflexivity.
  apply nodupb_NoDup.
  apply (default_frames_info_nodup keys avail (d_frame d)); [exact Hk|].
  symmetry. apply default_info_frames.
Qed.

(** * Main: the default handler's summaries satisfy [wf_block] *)
Theorem default_info_wf keys avail ds t :
  NoDup keys -> term_ok t = true ->
  wf_block (default_block keys avail ds) (default_term keys avail t) = true.
Proof.
  intros Hk Ht. unfold wf_block. apply andb_true_iff. split.
  - unfold default_block. apply forallb_forall. intros i Hi.
    apply in_map_iff in Hi. destruct Hi as [d [<- _]].
    apply default_info_wf_info. exact Hk.
  - destruct t as [d|]; cbn [default_term option_map wf_term]; [|reflexivity].
    rewrite default_info_role. exact Ht.
Qed.

(** every terminator the CFG construction produces (JUMP, JUMP-WHEN, JUMP-UNLESS, HALT; or none)
    passes [term_ok] *)
Lemma term_ok_jump m : term_ok (Some (MkD FOther OJump m)) = true.
Proof. reflexivity. Qed.

Lemma mf_none keys avail i : i = FOther -> matching_frames keys avail i = None.
Proof. apply FP.matching_frames_none. Qed.
Lemma mf_other keys avail i : matching_frames keys avail i = None -> i = FOther.
Proof. apply FP.matching_frames_none. Qed.

(** * "matches at least one defined frame" *)

Lemma d_matches_some_spec keys avail d :
  d_matches_some keys avail d = true <->
  (d_frame d = FOther \/
   exists f, In f keys /\
             (spec_used avail (d_frame d) f = true \/ spec_blocked avail (d_frame d) f = true)).
Proof.
  unfold d_matches_some.
  destruct (matching_frames keys avail (d_frame d)) as [[u b]|] eqn:E.
  - assert (Hne : d_frame d <> FOther).
    { intros H. apply (mf_none keys avail) in H. rewrite H in E. discriminate. }
    pose proof (FP.matching_frames_spec keys avail (d_frame d) u b E) as S.
    split.
    + intros H. right. destruct (u ++ b) as [|f t] eqn:Eub; [discriminate|].
      exists f. assert (Hin : In f (u ++ b)) by (rewrite Eub; left; reflexivity).
      apply in_app_iff in Hin. destruct (S f) as [SU SB].
      destruct Hin as [Hin|Hin]; [apply SU in Hin | apply SB in Hin]; tauto.
    + intros [H|[f [Hk H]]]; [contradiction|].
      destruct (S f) as [SU SB].
      assert (Hin : In f (u ++ b)).
      { apply in_app_iff. destruct H as [H|H]; [left; apply SU | right; apply SB]; tauto. }
      destruct (u ++ b); [destruct Hin | reflexivity].
  - apply mf_other in E. split; auto.
Qed.

Lemma d_role_rf d : d_role d = RRF <-> d_frame d <> FOther.
Proof.
  unfold d_role. destruct (d_frame d); try (split; [discriminate | reflexivity]).
  destruct (d_other d); split; intros H; try discriminate; exfalso; apply H; reflexivity.
Qed.

Lemma has_frames_default keys avail d :
  d_matches_some keys avail d = true -> has_frames (default_info keys avail d) = true.
Proof.
  unfold d_matches_some, has_frames. intros H. rewrite default_info_role.
  destruct (d_role d) eqn:R; try reflexivity.
  pose proof (default_info_frames keys avail d) as F. unfold default_frames_info in F.
  destruct (matching_frames keys avail (d_frame d)) as [[u b]|] eqn:E.
  - inversion F as [[Fu Fb]]. rewrite Fu, Fb, <- map_app.
    destruct (u ++ b); [discriminate | reflexivity].
  - exfalso. apply mf_other in E. apply d_role_rf in R. contradiction.
Qed.

Lemma has_frames_default_block keys avail ds :
  forallb (d_matches_some keys avail) ds = true ->
  forallb has_frames (default_block keys avail ds) = true.
Proof.
  intros H. unfold default_block. apply forallb_forall. intros i Hi.
  apply in_map_iff in Hi. destruct Hi as [d [<- Hd]].
  apply has_frames_default. rewrite forallb_forall in H. apply H. exact Hd.
Qed.

(** * Frame conflicts: on the numbered summaries = on the frames themselves *)

Lemma d_conflict_spec keys avail d e :
  d_conflict keys avail d e = true <->
  exists ud bd ue be f,
    matching_frames keys avail (d_frame d) = Some (ud, bd) /\
    matching_frames keys avail (d_frame e) = Some (ue, be) /\
    ((In f ud /\ (In f ue \/ In f be)) \/ (In f ue /\ (In f ud \/ In f bd))).
Proof.
  unfold d_conflict.
  destruct (matching_frames keys avail (d_frame d)) as [[ud bd]|];
    [|split; [discriminate | intros (?&?&?&?&?&H&_); discriminate]].
  destruct (matching_frames keys avail (d_frame e)) as [[ue be]|];
    [|split; [discriminate | intros (?&?&?&?&?&_&H&_); discriminate]].
  rewrite orb_true_iff, !existsb_exists. split.
  - intros [[f [Hf H]]|[f [Hf H]]]; exists ud, bd, ue, be, f; (split; [reflexivity|]);
      (split; [reflexivity|]); apply orb_true_iff in H; rewrite !FP.memF_In in H; tauto.
  - intros (ud' & bd' & ue' & be' & f & H1 & H2 & H).
    inversion H1; inversion H2; subst; clear H1 H2.
    destruct H as [[Hf H]|[Hf H]]; [left|right]; exists f; (split; [exact Hf|]);
      apply orb_true_iff; rewrite !FP.memF_In; exact H.
Qed.

Lemma touches_default keys avail d u b f :
  matching_frames keys avail (d_frame d) = Some (u, b) ->
  Graph.touches (default_info keys avail d) (findex keys f) = true <->
  In (findex keys f) (map (findex keys) u) \/ In (findex keys f) (map (findex keys) b).
Proof.
  intros E. unfold Graph.touches.
  pose proof (default_info_frames keys avail d) as F. unfold default_frames_info in F.
  rewrite E in F. inversion F as [[Fu Fb]]. rewrite Fu, Fb.
  rewrite orb_true_iff, !DP.memN_In. tauto.
Qed.

Lemma fconflict_default keys avail d e :
  d_conflict keys avail d e = true ->
  fconflict (default_info keys avail d) (default_info keys avail e) = true.
Proof.
  intros H. apply d_conflict_spec in H.
  destruct H as (ud & bd & ue & be & f & Ed & Ee & H).
  assert (Rd : d_role d = RRF).
  { apply d_role_rf. intros K. apply (mf_none keys avail) in K. rewrite K in Ed. discriminate. }
  assert (Re : d_role e = RRF).
  { apply d_role_rf. intros K. apply (mf_none keys avail) in K. rewrite K in Ee. discriminate. }
  unfold fconflict, is_rf. rewrite !default_info_role, Rd, Re. cbn [andb].
  pose proof (default_info_frames keys avail d) as Fd. unfold default_frames_info in Fd.
  rewrite Ed in Fd. inversion Fd as [[Fdu Fdb]].
  pose proof (default_info_frames keys avail e) as Fe. unfold default_frames_info in Fe.
  rewrite Ee in Fe. inversion Fe as [[Feu Feb]].
  rewrite Fdu, Feu. apply orb_true_iff. rewrite !existsb_exists.
  destruct H as [[Hf H]|[Hf H]]; [left|right]; exists (findex keys f);
    (split; [apply in_map; exact Hf|]).
  - apply (touches_default keys avail e ue be f Ee).
    destruct H as [H|H]; [left|right]; apply in_map; exact H.
  - apply (touches_default keys avail d ud bd f Ed).
    destruct H as [H|H]; [left|right]; apply in_map; exact H.
Qed.

(** the converse needs the injectivity of the numbering on defined frames *)
Lemma fconflict_default_inv keys avail d e :
  fconflict (default_info keys avail d) (default_info keys avail e) = true ->
  d_conflict keys avail d e = true.
Proof.
  intros H. unfold fconflict in H.
  apply andb_true_iff in H. destruct H as [H Hc]. apply andb_true_iff in H. destruct H as [Rd Re].
  unfold is_rf in Rd, Re. rewrite default_info_role in Rd, Re.
  assert (Rd' : d_role d = RRF) by (destruct (d_role d); try discriminate; reflexivity).
  assert (Re' : d_role e = RRF) by (destruct (d_role e); try discriminate; reflexivity).
  apply d_role_rf in Rd'. apply d_role_rf in Re'.
  destruct (matching_frames keys avail (d_frame d)) as [[ud bd]|] eqn:Ed;
    [|apply mf_other in Ed; contradiction].
  destruct (matching_frames keys avail (d_frame e)) as [[ue be]|] eqn:Ee;
    [|apply mf_other in Ee; contradiction].
  apply d_conflict_spec. exists ud, bd, ue, be.
  pose proof (default_info_frames keys avail d) as Fd. unfold default_frames_info in Fd.
  rewrite Ed in Fd. inversion Fd as [[Fdu Fdb]].
  pose proof (default_info_frames keys avail e) as Fe. unfold default_frames_info in Fe.
  rewrite Ee in Fe. inversion Fe as [[Feu Feb]].
  assert (Dd : forall f, In f ud \/ In f bd -> In f keys)
    by exact (FP.matching_frames_defined keys avail _ ud bd Ed).
  assert (De : forall f, In f ue \/ In f be -> In f keys)
    by exact (FP.matching_frames_defined keys avail _ ue be Ee).
  assert (Back : forall f l, In f keys -> In (findex keys f) (map (findex keys) l) -> In f l).
  { intros f l Hk Hin. apply in_map_iff in Hin. destruct Hin as [g [Hg Hgin]].
    symmetry in Hg. apply (findex_inj keys f g Hk) in Hg. subst g. exact Hgin. }
  apply orb_true_iff in Hc. rewrite !existsb_exists in Hc.
  destruct Hc as [[n [Hn Ht]]|[n [Hn Ht]]].
  - rewrite Fdu in Hn. apply in_map_iff in Hn. destruct Hn as [f [<- Hf]].
    exists f. split; [exact Ed|]. split; [exact Ee|]. left. split; [exact Hf|].
    apply (touches_default keys avail e ue be f Ee) in Ht.
    assert (Hk : In f keys) by (apply Dd; left; exact Hf).
    destruct Ht as [Ht|Ht]; [left|right]; apply Back; assumption.
  - rewrite Feu in Hn. apply in_map_iff in Hn. destruct Hn as [f [<- Hf]].
    exists f. split; [exact Ed|]. split; [exact Ee|]. right. split; [exact Hf|].
    apply (touches_default keys avail d ud bd f Ed) in Ht.
    assert (Hk : In f keys) by (apply De; left; exact Hf).
    destruct Ht as [Ht|Ht]; [left|right]; apply Back; assumption.
Qed.

Lemma fconflict_default_iff keys avail d e :
  fconflict (default_info keys avail d) (default_info keys avail e) = d_conflict keys avail d e.
Proof.
  destruct (d_conflict keys avail d e) eqn:E.
  - apply fconflict_default; exact E.
  - destruct (fconflict _ _) eqn:F; [|reflexivity].
    apply fconflict_default_inv in F. congruence.
Qed.

(** * The graph theorems for blocks summarised by the default handler *)

Theorem default_build_forward keys avail ds t E :
  NoDup keys -> term_ok t = true -> default_build keys avail ds t = inr E ->
  forall a b k, In (a, b, k) E -> a < b /\ b <= N.succ (N.of_nat (length ds)).
Proof.
  intros Hk Ht Hb a b k Hin.
  pose proof (build_forward _ _ _ Hb (default_info_wf keys avail ds t Hk Ht) a b k Hin) as H.
  unfold default_block in H. rewrite map_length in H. exact H.
Qed.

Theorem default_build_acyclic keys avail ds t E :
  NoDup keys -> term_ok t = true -> default_build keys avail ds t = inr E ->
  forall x, ~ clos_trans N (gerel E) x x.
Proof.
  intros Hk Ht Hb.
  exact (forward_acyclic _ _ (build_forward _ _ _ Hb (default_info_wf keys avail ds t Hk Ht))).
Qed.

Theorem default_build_reach keys avail ds t E :
  NoDup keys -> term_ok t = true -> default_build keys avail ds t = inr E ->
  forallb (d_matches_some keys avail) ds = true ->
  forall i, 1 <= i <= N.of_nat (length ds) ->
    clos_refl_trans N (gerel E) 0 i /\
    clos_refl_trans N (gerel E) i (N.succ (N.of_nat (length ds))).
Proof.
  intros Hk Ht Hb Hm i Hi.
  pose proof (build_reach _ _ _ Hb (default_info_wf keys avail ds t Hk Ht)
                (has_frames_default_block keys avail ds Hm) i) as H.
  unfold default_block in H. rewrite map_length in H. apply H. exact Hi.
Qed.

Theorem default_conflicts_ordered keys avail ds t E p q d e :
  default_build keys avail ds t = inr E ->
  nth_error ds p = Some d -> nth_error ds q = Some e -> (p < q)%nat ->
  d_conflict keys avail d e = true ->
  clos_trans N (krel KStable E) (1 + N.of_nat p) (1 + N.of_nat q) /\
  (d_sched d = true -> d_sched e = true ->
   clos_trans N (krel KSched E) (1 + N.of_nat p) (1 + N.of_nat q)).
Proof.
  intros Hb Hp Hq Hlt Hc.
  pose proof (frames_conflicts_ordered (default_block keys avail ds) (default_term keys avail t) E
                p q (default_info keys avail d) (default_info keys avail e) Hb) as H.
  unfold default_block in H. rewrite !nth_error_map, Hp, Hq in H. cbn [option_map] in H.
  specialize (H eq_refl eq_refl Hlt (fconflict_default keys avail d e Hc)).
  rewrite !default_info_sched in H. exact H.
Qed.

(** the frame-edge pairs of GraphBlockProofs, on the instructions themselves *)
Definition d_frame_pair keys avail (ds : list dinstr) (sched : bool) (a b : N) : Prop :=
  exists p q d e, nth_error ds p = Some d /\ nth_error ds q = Some e /\ (p < q)%nat /\
                  a = 1 + N.of_nat p /\ b = 1 + N.of_nat q /\ d_conflict keys avail d e = true /\
                  (sched = true -> d_sched d = true /\ d_sched e = true).

Lemma frame_pair_default keys avail ds sched a b :
  frame_pair (default_block keys avail ds) sched a b -> d_frame_pair keys avail ds sched a b.
Proof.
  intros (p & q & i & j & Hp & Hq & Hlt & Ha & Hb & Hc & Hs).
  unfold default_block in Hp, Hq. rewrite nth_error_map in Hp, Hq.
  destruct (nth_error ds p) as [d|] eqn:Ep; [|discriminate].
  destruct (nth_error ds q) as [e|] eqn:Eq; [|discriminate].
  cbn [option_map] in Hp, Hq. inversion Hp; inversion Hq; subst i j; clear Hp Hq.
  exists p, q, d, e. repeat (split; [assumption || reflexivity|]).
  split; [rewrite <- fconflict_default_iff; exact Hc|].
  intros S. specialize (Hs S). rewrite !default_info_sched in Hs. exact Hs.
Qed.

Theorem default_edges_justified keys avail ds t E a b k :
  NoDup keys -> term_ok t = true -> default_build keys avail ds t = inr E -> In (a, b, k) E ->
  (k = KStable -> a = 0 \/ b = N.succ (N.of_nat (length ds)) \/ d_frame_pair keys avail ds false a b) /\
  (k = KSched -> a = 0 \/ b = N.succ (N.of_nat (length ds)) \/ d_frame_pair keys avail ds true a b).
Proof.
  intros Hk Ht Hb Hin.
  destruct (frames_edges_justified _ _ E a b k Hb (default_info_wf keys avail ds t Hk Ht) Hin)
    as [H1 H2].
  assert (En : end_node (default_block keys avail ds) = N.succ (N.of_nat (length ds))).
  { unfold end_node, default_block. rewrite map_length. reflexivity. }
  rewrite En in H1, H2.
  split; intros K; [specialize (H1 K) | specialize (H2 K)].
  - destruct H1 as [H|[H|H]]; auto. right; right. apply frame_pair_default; exact H.
  - destruct H2 as [H|[H|H]]; auto. right; right. apply frame_pair_default; exact H.
Qed.

Theorem default_nonconflicting_unordered keys avail ds t E p q d e :
  NoDup keys -> term_ok t = true -> default_build keys avail ds t = inr E ->
  nth_error ds p = Some d -> nth_error ds q = Some e -> d_conflict keys avail d e = false ->
  ~ In (1 + N.of_nat p, 1 + N.of_nat q, KStable) E /\ ~ In (1 + N.of_nat p, 1 + N.of_nat q, KSched) E.
Proof.
  intros Hk Ht Hb Hp Hq Hc.
  apply (frames_nonconflicting_unordered (default_block keys avail ds) (default_term keys avail t) E
           p q (default_info keys avail d) (default_info keys avail e) Hb
           (default_info_wf keys avail ds t Hk Ht)).
  - unfold default_block. rewrite nth_error_map, Hp. reflexivity.
  - unfold default_block. rewrite nth_error_map, Hq. reflexivity.
  - rewrite fconflict_default_iff. exact Hc.
Qed.

(** decidable form of [NoDup keys] *)
Lemma nodupF_NoDup l : nodupF l = true <-> NoDup l.
Proof.
  induction l as [|f t IH]; cbn [nodupF].
  - split; [constructor | reflexivity].
  - rewrite andb_true_iff, negb_true_iff, FP.memF_false, IH. split.
    + intros [H1 H2]; constructor; assumption.
    + intros H; inversion H; subst; split; assumption.
Qed.

(** the reachability premise in the property's words: every frame-related instruction of the
    block matches (uses or blocks) at least one defined frame *)
Lemma d_matches_some_block keys avail ds :
  (forall d, In d ds -> d_frame d <> FOther ->
     exists u b f, matching_frames keys avail (d_frame d) = Some (u, b) /\ (In f u \/ In f b)) ->
  forallb (d_matches_some keys avail) ds = true.
Proof.
  intros H. apply forallb_forall. intros d Hd. unfold d_matches_some.
  destruct (matching_frames keys avail (d_frame d)) as [[u b]|] eqn:E; [|reflexivity].
  assert (Hne : d_frame d <> FOther).
  { intros K. apply (mf_none keys avail) in K. rewrite K in E. discriminate. }
  destruct (H d Hd Hne) as (u' & b' & f & E' & Hf).
  rewrite E in E'. inversion E'; subst u' b'.
  assert (Hin : In f (u ++ b)) by (apply in_app_iff; exact Hf).
  destruct (u ++ b); [destruct Hin | reflexivity].
Qed.
