(** Proofs about Model/Cfg.v: the block list produced by the fold partitions the body, is
    well formed, locates its blocks, and reports dynamic control flow correctly; the instance
    checker is sound and complete; the partition is unique. *)
From Coq Require Import List NArith Bool Arith Lia.
From QV Require Import Model.Cfg.
Import ListNotations.

(** ** Specification (Prop level) *)

Definition NonEmpty (b : blk) : Prop :=
  b_label b <> None \/ b_instrs b <> [] \/ b_term b <> TContinue.

(** No block is empty; a fall-through block is followed by a labelled block (or is last). *)
Definition WF (bs : list blk) : Prop :=
  (forall b, In b bs -> NonEmpty b) /\
  (forall pre b b' post, bs = pre ++ b :: b' :: post -> b_term b = TContinue -> b_label b' <> None).

(** Every block's offset is the number of instructions written by the blocks before it. *)
Definition Located (bs : list blk) : Prop :=
  forall pre b post, bs = pre ++ b :: post -> b_offset b = length (flatten pre).

Definition HasCond (body : list item) : Prop :=
  exists it, In it body /\ (exists l c, it = JmpWhen l c \/ it = JmpUnless l c).

Definition Spec (body : list item) (bs : list blk) (dyn : bool) : Prop :=
  flatten bs = strip body /\ WF bs /\ Located bs /\ (dyn = true <-> HasCond body)
  /\ dyn = has_dynamic bs.

(** ** Small facts *)

Lemma flatten_app a b : flatten (a ++ b) = flatten a ++ flatten b.
Proof. unfold flatten. apply flat_map_app. Qed.

Lemma flatten_snoc a b : flatten (a ++ [b]) = flatten a ++ blk_items b.
Proof. rewrite flatten_app. cbn [flatten flat_map]. now rewrite app_nil_r. Qed.

Lemma strip_app a b : strip (a ++ b) = strip a ++ strip b.
Proof. unfold strip. apply filter_app. Qed.

Lemma has_dynamic_snoc bs b : has_dynamic (bs ++ [b]) = has_dynamic bs || term_dynamic (b_term b).
Proof. unfold has_dynamic. rewrite existsb_app. cbn [existsb]. now rewrite orb_false_r. Qed.

Lemma is_nil_false {A} (l : list A) : is_nil l = false <-> l <> [].
Proof. destruct l; cbn; split; congruence. Qed.

Lemma is_some_true {A} (o : option A) : is_some o = true <-> o <> None.
Proof. destruct o; cbn; split; congruence. Qed.

(** [wf_open nl bs]: [chk_wf] where the obligation of a trailing fall-through block is [nl]
    ("whatever comes next is labelled"). *)
Fixpoint wf_open (nl : bool) (bs : list blk) : bool :=
  match bs with
  | [] => true
  | b :: t =>
      blk_nonempty b
      && match b_term b, t with
         | TContinue, b' :: _ => is_some (b_label b')
         | TContinue, [] => nl
         | _, _ => true
         end
      && wf_open nl t
  end.

Lemma chk_wf_open bs : chk_wf bs = wf_open true bs.
Proof.
  induction bs as [|b t IH]; cbn [chk_wf wf_open]; [reflexivity|].
  rewrite IH. destruct (b_term b), t; reflexivity.
Qed.

Lemma wf_open_snoc nl bs b :
  wf_open nl (bs ++ [b]) =
  wf_open (is_some (b_label b)) bs && blk_nonempty b
  && match b_term b with TContinue => nl | _ => true end.
Proof.
  induction bs as [|x t IH]; cbn [app wf_open].
  - rewrite andb_true_r. reflexivity.
  - rewrite IH. destruct t as [|y t']; cbn [app].
    + destruct (b_term x); cbn [wf_open]; ring.
    + destruct (b_term x); ring.
Qed.

Lemma chk_offsets_snoc acc bs b :
  chk_offsets acc (bs ++ [b]) =
  chk_offsets acc bs && Nat.eqb (b_offset b) (acc + length (flatten bs)).
Proof.
  revert acc. induction bs as [|x t IH]; intros acc; cbn [app chk_offsets].
  - cbn [flatten flat_map length]. rewrite Nat.add_0_r, andb_true_r. reflexivity.
  - rewrite IH. cbn [flatten flat_map]. rewrite app_length.
    fold (flatten t). rewrite Nat.add_assoc, andb_assoc. reflexivity.
Qed.

Lemma blk_items_length b :
  length (blk_items b) = lab_len (b_label b) + length (b_instrs b) + length (term_items (b_term b)).
Proof.
  unfold blk_items. rewrite !app_length, map_length.
  destruct (b_label b); cbn [label_items lab_len length]; lia.
Qed.

Lemma label_items_length o : length (label_items o) = lab_len o.
Proof. destruct o; reflexivity. Qed.

(** ** The loop invariant *)

Definition pending (s : st) : list item := label_items (s_label s) ++ map Plain (s_cur s).

Record Inv (pre : list item) (s : st) : Prop := {
  inv_flat : flatten (s_blocks s) ++ pending s = strip pre;
  inv_off : s_off s = length (flatten (s_blocks s));
  inv_offs : chk_offsets 0 (s_blocks s) = true;
  inv_wf : wf_open (is_some (s_label s)) (s_blocks s) = true;
  inv_dyn : has_dynamic (s_blocks s) = existsb is_cond pre }.

Lemma inv_init : Inv [] st0.
Proof. constructor; reflexivity || (intros; reflexivity). Qed.

Lemma existsb_snoc {A} (f : A -> bool) l x : existsb f (l ++ [x]) = existsb f l || f x.
Proof. rewrite existsb_app. cbn [existsb]. now rewrite orb_false_r. Qed.

Lemma strip_snoc pre it : strip (pre ++ [it]) = strip pre ++ (if is_skip it then [] else [it]).
Proof. rewrite strip_app. unfold strip at 2. cbn [filter]. destruct (is_skip it); reflexivity. Qed.

(** A pending block that may be closed: it is non-empty. *)
Definition closable (s : st) : bool := negb (is_nil (s_cur s)) || is_some (s_label s).

(** Closing the pending block with terminator [t] (whose instruction, if any, is [ti]). *)
Lemma close_inv pre s t :
  Inv pre s ->
  (t = TContinue -> closable s = true) ->
  let s' := close s t (length (term_items t) + lab_len (s_label s)) in
  flatten (s_blocks s') ++ pending s' = strip pre ++ term_items t
  /\ s_off s' = length (flatten (s_blocks s'))
  /\ chk_offsets 0 (s_blocks s') = true
  /\ wf_open (match t with TContinue => true | _ => false end) (s_blocks s')
     = true
  /\ (t <> TContinue -> wf_open true (s_blocks s') = true)
  /\ has_dynamic (s_blocks s') = existsb is_cond pre || term_dynamic t.
Proof.
  intros [Hflat Hoff Hoffs Hwf Hdyn] Hcl. cbn zeta.
  unfold close; cbn [s_blocks s_label s_cur s_off pending label_items map app].
  rewrite app_nil_r, flatten_snoc. unfold blk_items at 1 2; cbn [b_label b_instrs b_term].
  unfold pending in Hflat.
  assert (Hne : t <> TContinue \/ closable s = true).
  { destruct t; auto; left; discriminate. }
  assert (Hwf' : forall nl, (t = TContinue -> nl = true) ->
            wf_open nl (s_blocks s ++ [mkblk (s_label s) (s_cur s) (s_off s) t]) = true).
  { intros nl Hnl. rewrite wf_open_snoc. cbn [b_label b_term].
    rewrite Hwf. cbn [andb]. apply andb_true_intro. split.
    - unfold blk_nonempty; cbn [b_label b_instrs b_term].
      destruct Hne as [Hne | Hne].
      + destruct t; try congruence; now rewrite !orb_true_r.
      + unfold closable in Hne. rewrite orb_comm in Hne. rewrite Hne. reflexivity.
    - destruct t; auto. }
  repeat split.
  - rewrite <- Hflat, <- !app_assoc. reflexivity.
  - rewrite !app_length, map_length, Hoff, label_items_length. lia.
  - rewrite chk_offsets_snoc, Hoffs. cbn [b_offset andb]. rewrite Hoff. apply Nat.eqb_refl.
  - apply Hwf'. intros ->. reflexivity.
  - intros Hnc. apply Hwf'. congruence.
  - rewrite has_dynamic_snoc, Hdyn. reflexivity.
Qed.

Lemma wf_open_mono bs : forall nl, wf_open nl bs = true -> wf_open true bs = true.
Proof.
  induction bs as [|b t IH]; intros nl H; [reflexivity|].
  cbn [wf_open] in *. apply andb_prop in H as [H H3]. apply andb_prop in H as [H1 H2].
  rewrite H1, (IH _ H3). cbn [andb]. rewrite andb_true_r.
  destruct (b_term b), t; auto.
Qed.

Lemma step_inv pre s it : Inv pre s -> Inv (pre ++ [it]) (step lab_len s it).
Proof.
  intros HI. pose proof HI as [Hflat Hoff Hoffs Hwf Hdyn].
  destruct it as [k|l|l|l c|l c| |k].
  - (* Plain *)
    cbn [step]. constructor; cbn [s_blocks s_label s_cur s_off]; auto.
    + unfold pending in *; cbn [s_label s_cur]. rewrite strip_snoc; cbn [is_skip].
      rewrite map_app, !app_assoc. rewrite <- Hflat, <- !app_assoc. reflexivity.
    + rewrite existsb_snoc, Hdyn. cbn [is_cond]. now rewrite orb_false_r.
  - (* Label *)
    cbn [step]. fold (closable s). destruct (closable s) eqn:Hcl.
    + destruct (close_inv pre s TContinue HI (fun _ => Hcl)) as (F & O & OS & W & _ & D).
      cbn [term_items length Nat.add] in F, O, OS, W, D.
      constructor; cbn [s_blocks s_label s_cur s_off is_some]; auto.
      * unfold pending; cbn [s_label s_cur label_items map]. rewrite strip_snoc; cbn [is_skip].
        unfold pending in F. cbn [close s_label s_cur label_items map app] in F.
        rewrite app_nil_r in F. rewrite app_nil_r in F. rewrite F. reflexivity.
      * rewrite existsb_snoc. cbn [is_cond]. rewrite orb_false_r.
        rewrite D. cbn [term_dynamic]. now rewrite orb_false_r.
    + unfold closable in Hcl. apply orb_false_elim in Hcl as [Hc Hl].
      apply negb_false_iff in Hc. destruct (s_cur s) as [|x t] eqn:Hcur; [|discriminate].
      destruct (s_label s) as [l'|] eqn:Hlab; [discriminate|].
      constructor; cbn [s_blocks s_label s_cur s_off is_some]; auto.
      * unfold pending in *; cbn [s_label s_cur label_items map] in *. rewrite Hcur, Hlab in *.
        rewrite strip_snoc; cbn [is_skip label_items map app] in *.
        rewrite app_nil_r in Hflat. rewrite Hflat. reflexivity.
      * eapply wf_open_mono. exact Hwf.
      * rewrite existsb_snoc, Hdyn. cbn [is_cond]. now rewrite orb_false_r.
  - (* Jump *)
    cbn [step].
    destruct (close_inv pre s (TJump l) HI ltac:(discriminate)) as (F & O & OS & W & _ & D).
    cbn [term_items length] in F, O, OS, W, D.
    constructor; auto.
    + rewrite strip_snoc; cbn [is_skip]. exact F.
    + rewrite existsb_snoc. cbn [is_cond]. rewrite D. reflexivity.
  - (* JumpWhen *)
    cbn [step].
    destruct (close_inv pre s (TCond false l c) HI ltac:(discriminate)) as (F & O & OS & W & _ & D).
    cbn [term_items length] in F, O, OS, W, D.
    constructor; auto.
    + rewrite strip_snoc; cbn [is_skip]. exact F.
    + rewrite existsb_snoc. cbn [is_cond]. rewrite D. reflexivity.
  - (* JumpUnless *)
    cbn [step].
    destruct (close_inv pre s (TCond true l c) HI ltac:(discriminate)) as (F & O & OS & W & _ & D).
    cbn [term_items length] in F, O, OS, W, D.
    constructor; auto.
    + rewrite strip_snoc; cbn [is_skip]. exact F.
    + rewrite existsb_snoc. cbn [is_cond]. rewrite D. reflexivity.
  - (* Halt *)
    cbn [step].
    destruct (close_inv pre s THalt HI ltac:(discriminate)) as (F & O & OS & W & _ & D).
    cbn [term_items length] in F, O, OS, W, D.
    constructor; auto.
    + rewrite strip_snoc; cbn [is_skip]. exact F.
    + rewrite existsb_snoc. cbn [is_cond]. rewrite D. cbn [term_dynamic]. reflexivity.
  - (* Skip *)
    cbn [step]. constructor; auto.
    + rewrite strip_snoc; cbn [is_skip]. now rewrite app_nil_r.
    + rewrite existsb_snoc, Hdyn. cbn [is_cond]. now rewrite orb_false_r.
Qed.

Lemma run_inv body : forall pre s, Inv pre s -> Inv (pre ++ body) (run lab_len s body).
Proof.
  induction body as [|it t IH]; intros pre s HI; cbn [run fold_left].
  - now rewrite app_nil_r.
  - replace (pre ++ it :: t) with ((pre ++ [it]) ++ t) by (rewrite <- app_assoc; reflexivity).
    apply IH. now apply step_inv.
Qed.

(** ** The result of the whole fold *)

Lemma finish_props body s :
  Inv body s ->
  flatten (finish s) = strip body /\ chk_wf (finish s) = true
  /\ chk_offsets 0 (finish s) = true /\ has_dynamic (finish s) = existsb is_cond body.
Proof.
  intros HI. unfold finish. fold (closable s). destruct (closable s) eqn:Hcl.
  - destruct (close_inv body s TContinue HI (fun _ => Hcl)) as (F & _ & OS & W & _ & D).
    cbn [term_items length Nat.add close s_blocks s_label s_cur pending label_items map app] in *.
    rewrite !app_nil_r in F. rewrite chk_wf_open. repeat split; auto.
    rewrite D. cbn [term_dynamic]. now rewrite orb_false_r.
  - destruct HI as [Hflat Hoff Hoffs Hwf Hdyn].
    unfold closable in Hcl. apply orb_false_elim in Hcl as [Hc Hl].
    apply negb_false_iff in Hc. unfold pending in Hflat.
    destruct (s_cur s); [|discriminate]. destruct (s_label s); [discriminate|].
    cbn [label_items map app] in Hflat. rewrite app_nil_r in Hflat.
    rewrite chk_wf_open. repeat split; auto. eapply wf_open_mono; eauto.
Qed.

Lemma blocks_props body :
  flatten (blocks body) = strip body /\ chk_wf (blocks body) = true
  /\ chk_offsets 0 (blocks body) = true /\ has_dynamic (blocks body) = existsb is_cond body.
Proof.
  unfold blocks, blocks_gen. apply finish_props.
  apply (run_inv body [] st0 inv_init).
Qed.

(** ** From the boolean checks to the Prop-level specification and back *)

Lemma blk_nonempty_spec b : blk_nonempty b = true <-> NonEmpty b.
Proof.
  unfold blk_nonempty, NonEmpty.
  destruct (b_label b), (b_instrs b), (b_term b); cbn; split; intros H; try reflexivity;
    try discriminate; try (left; discriminate); try (right; left; discriminate);
    try (right; right; discriminate).
  destruct H as [H | [H | H]]; congruence.
Qed.

Lemma chk_wf_WF bs : chk_wf bs = true <-> WF bs.
Proof.
  unfold WF. induction bs as [|b t IH]; cbn [chk_wf].
  - split; [|reflexivity]. intros _. split; [intros b []|].
    intros [|? ?] ? ? ? H; discriminate H.
  - rewrite !andb_true_iff, IH, blk_nonempty_spec. split.
    + intros [[Hne Hnext] [Hall Hfol]]. split.
      * intros x [<- | Hx]; auto.
      * intros [|p pre] x x' post Heq Ht.
        -- cbn [app] in Heq. injection Heq as <- ->. rewrite Ht in Hnext.
           now apply is_some_true.
        -- cbn [app] in Heq. injection Heq as <- ->. eapply Hfol; eauto.
    + intros [Hall Hfol]. repeat split.
      * apply Hall. now left.
      * destruct (b_term b) eqn:Ht; auto. destruct t as [|b' t']; auto.
        apply is_some_true. apply (Hfol [] b b' t'); auto.
      * intros x Hx. apply Hall. now right.
      * intros pre x x' post Heq Ht. apply (Hfol (b :: pre) x x' post); auto.
        cbn [app]. now rewrite Heq.
Qed.

Lemma chk_offsets_located acc bs :
  chk_offsets acc bs = true <->
  (forall pre b post, bs = pre ++ b :: post -> b_offset b = acc + length (flatten pre)).
Proof.
  revert acc. induction bs as [|x t IH]; intros acc; cbn [chk_offsets].
  - split; [|reflexivity]. intros _ [|? ?] ? ? H; discriminate H.
  - rewrite andb_true_iff, Nat.eqb_eq, IH. split.
    + intros [Hx Ht] [|p pre] b post Heq; cbn [app] in Heq; injection Heq as <- ->.
      * cbn [flatten flat_map length]. lia.
      * rewrite (Ht pre b post eq_refl). cbn [flatten flat_map]. rewrite app_length.
        fold (flatten pre). lia.
    + intros H. split.
      * rewrite (H [] x t eq_refl). cbn [flatten flat_map length]. lia.
      * intros pre b post ->. rewrite (H (x :: pre) b post eq_refl).
        cbn [flatten flat_map]. rewrite app_length. fold (flatten pre). lia.
Qed.

Lemma chk_offsets_Located bs : chk_offsets 0 bs = true <-> Located bs.
Proof. rewrite chk_offsets_located. unfold Located. reflexivity. Qed.

Lemma is_cond_HasCond body : existsb is_cond body = true <-> HasCond body.
Proof.
  unfold HasCond. rewrite existsb_exists. split.
  - intros [it [Hin Hc]]. exists it. split; auto.
    destruct it; try discriminate; eauto.
  - intros [it [Hin [l [c [-> | ->]]]]]; eexists; split; eauto.
Qed.

Lemma item_eqb_eq a b : item_eqb a b = true <-> a = b.
Proof.
  destruct a, b; cbn [item_eqb]; rewrite ?andb_true_iff, ?N.eqb_eq;
    split; intros H; try discriminate; try reflexivity;
    try (f_equal; tauto); try (injection H; tauto); try tauto.
Qed.

Lemma items_eqb_eq a b : items_eqb a b = true <-> a = b.
Proof.
  revert b. induction a as [|x a IH]; intros [|y b]; cbn [items_eqb];
    try (split; [reflexivity || discriminate | reflexivity || discriminate]).
  rewrite andb_true_iff, item_eqb_eq, IH. split.
  - intros [-> ->]. reflexivity.
  - intros H. injection H. auto.
Qed.

Lemma eqb_true_eq a b : Bool.eqb a b = true <-> a = b.
Proof. destruct a, b; cbn; split; congruence. Qed.

Theorem chk_cfg_spec body bs dyn : chk_cfg body bs dyn = true <-> Spec body bs dyn.
Proof.
  unfold chk_cfg, Spec.
  rewrite !andb_true_iff, items_eqb_eq, chk_wf_WF, chk_offsets_Located, !eqb_true_eq.
  rewrite <- is_cond_HasCond. split.
  - intros [[[[H1 H2] H3] H4] H5]. rewrite <- H4. tauto.
  - intros (H1 & H2 & H3 & H4 & H5).
    assert (H6 : dyn = existsb is_cond body).
    { destruct dyn, (existsb is_cond body); auto.
      + symmetry. apply H4. reflexivity.
      + destruct H4 as [_ H4]. discriminate (H4 eq_refl). }
    tauto.
Qed.

Theorem blocks_spec body : Spec body (blocks body) (has_dynamic (blocks body)).
Proof.
  destruct (blocks_props body) as (F & W & O & D).
  apply chk_cfg_spec. unfold chk_cfg.
  rewrite F, W, O, D. cbn [andb]. rewrite !andb_true_iff, !eqb_true_eq, items_eqb_eq. auto.
Qed.

(** ** Locating a block in the body *)

Lemma skipn_app_length {A} (a b : list A) : skipn (length a) (a ++ b) = b.
Proof. induction a; cbn; auto. Qed.

(** The instructions from a block's offset on are exactly that block followed by the later ones. *)
Lemma located_skipn bs L pre b post :
  flatten bs = L -> Located bs -> bs = pre ++ b :: post ->
  skipn (b_offset b) L = blk_items b ++ flatten post.
Proof.
  intros <- Hloc Heq. rewrite (Hloc _ _ _ Heq), Heq, flatten_app.
  rewrite skipn_app_length. reflexivity.
Qed.

Lemma strip_noskip body : (forall k, ~ In (Skip k) body) -> strip body = body.
Proof.
  induction body as [|it t IH]; intros H; [reflexivity|].
  unfold strip; cbn [filter]. fold (strip t).
  destruct it; cbn [is_skip negb]; try (rewrite IH; [reflexivity|]; intros k' Hk; apply (H k'); now right).
  exfalso. apply (H k). now left.
Qed.

(** ** Uniqueness: the specification determines the block list *)

Definition starts_block_ok (t : term) (rest : list item) : Prop :=
  t = TContinue -> rest = [] \/ exists l r, rest = Lbl l :: r.

Lemma plain_prefix_unique i1 : forall i2 x1 x2,
  map Plain i1 ++ x1 = map Plain i2 ++ x2 ->
  (forall k r, x1 <> Plain k :: r) -> (forall k r, x2 <> Plain k :: r) ->
  i1 = i2 /\ x1 = x2.
Proof.
  induction i1 as [|a i1 IH]; intros [|b i2] x1 x2 H H1 H2; cbn [map app] in H.
  - auto.
  - exfalso. eapply H1. exact H.
  - exfalso. eapply H2. symmetry. exact H.
  - injection H as -> H. destruct (IH _ _ _ H H1 H2) as [-> ->]. auto.
Qed.

Lemma term_rest_noplain t rest k r :
  starts_block_ok t rest -> term_items t ++ rest <> Plain k :: r.
Proof.
  intros Hs. destruct t as [|l|[|] l c|]; cbn [term_items app]; try discriminate.
  destruct (Hs eq_refl) as [-> | (l & r' & ->)]; discriminate.
Qed.

Lemma term_rest_unique t1 t2 r1 r2 :
  term_items t1 ++ r1 = term_items t2 ++ r2 ->
  starts_block_ok t1 r1 -> starts_block_ok t2 r2 -> t1 = t2 /\ r1 = r2.
Proof.
  intros H H1 H2.
  destruct t1 as [|l1|[|] l1 c1|], t2 as [|l2|[|] l2 c2|]; cbn [term_items app] in H;
    try (injection H; intros; subst; auto; fail);
    try discriminate H;
    try (destruct (H1 eq_refl) as [-> | (l & r' & ->)]; discriminate H);
    try (destruct (H2 eq_refl) as [-> | (l & r' & ->)]; discriminate H).
  auto.
Qed.

(** What the rest of a well-formed list looks like after a fall-through block. *)
Lemma wf_rest_ok b t : chk_wf (b :: t) = true -> starts_block_ok (b_term b) (flatten t).
Proof.
  cbn [chk_wf]. rewrite !andb_true_iff. intros [[_ Hn] _] Ht. rewrite Ht in Hn.
  destruct t as [|b' t']; [now left|]. right.
  destruct (b_label b') as [l|] eqn:Hl; [|discriminate].
  exists l. eexists. cbn [flatten flat_map]. unfold blk_items. rewrite Hl. reflexivity.
Qed.

Lemma blk_unique b1 b2 r1 r2 :
  blk_items b1 ++ r1 = blk_items b2 ++ r2 ->
  blk_nonempty b1 = true -> blk_nonempty b2 = true ->
  starts_block_ok (b_term b1) r1 -> starts_block_ok (b_term b2) r2 ->
  b_label b1 = b_label b2 /\ b_instrs b1 = b_instrs b2 /\ b_term b1 = b_term b2 /\ r1 = r2.
Proof.
  unfold blk_items. rewrite <- !app_assoc. intros H N1 N2 S1 S2.
  assert (Hlab : b_label b1 = b_label b2
                 /\ map Plain (b_instrs b1) ++ term_items (b_term b1) ++ r1
                    = map Plain (b_instrs b2) ++ term_items (b_term b2) ++ r2).
  { unfold blk_nonempty in N1, N2.
    destruct (b_label b1) as [l1|], (b_label b2) as [l2|]; cbn [label_items app] in H.
    - injection H as -> H. auto.
    - exfalso. cbn [is_some orb] in N2.
      destruct (b_instrs b2) as [|k i]; [|discriminate H]. cbn [map app] in H.
      destruct (b_term b2) as [|l|[|] l c|]; try discriminate H. discriminate N2.
    - exfalso. cbn [is_some orb] in N1.
      destruct (b_instrs b1) as [|k i]; [|discriminate H]. cbn [map app] in H.
      destruct (b_term b1) as [|l|[|] l c|]; try discriminate H. discriminate N1.
    - auto. }
  destruct Hlab as [Hl H'].
  apply plain_prefix_unique in H' as [Hi H'].
  - apply term_rest_unique in H' as [Ht Hr]; auto.
  - intros k r. now apply term_rest_noplain.
  - intros k r. now apply term_rest_noplain.
Qed.

Lemma wf_tail b t : chk_wf (b :: t) = true -> chk_wf t = true.
Proof. cbn [chk_wf]. rewrite !andb_true_iff. tauto. Qed.

Lemma wf_head b t : chk_wf (b :: t) = true -> blk_nonempty b = true.
Proof. cbn [chk_wf]. rewrite !andb_true_iff. tauto. Qed.

Lemma flatten_nil_wf bs : chk_wf bs = true -> flatten bs = [] -> bs = [].
Proof.
  destruct bs as [|b t]; auto. intros W F. exfalso.
  apply wf_head in W. cbn [flatten flat_map] in F. apply app_eq_nil in F as [F _].
  unfold blk_items in F. apply app_eq_nil in F as [F1 F]. apply app_eq_nil in F as [F2 F3].
  unfold blk_nonempty in W.
  destruct (b_label b); [discriminate|]. destruct (b_instrs b); [|discriminate].
  destruct (b_term b) as [|l|[|] l c|]; discriminate.
Qed.

Theorem partition_unique bs1 : forall bs2 acc,
  flatten bs1 = flatten bs2 ->
  chk_wf bs1 = true -> chk_wf bs2 = true ->
  chk_offsets acc bs1 = true -> chk_offsets acc bs2 = true ->
  bs1 = bs2.
Proof.
  induction bs1 as [|b1 t1 IH]; intros bs2 acc F W1 W2 O1 O2.
  - symmetry. apply flatten_nil_wf; auto.
  - destruct bs2 as [|b2 t2].
    + apply flatten_nil_wf; auto.
    + cbn [flatten flat_map] in F. fold (flatten t1) in F. fold (flatten t2) in F.
      destruct (blk_unique b1 b2 _ _ F (wf_head _ _ W1) (wf_head _ _ W2)
                  (wf_rest_ok _ _ W1) (wf_rest_ok _ _ W2)) as (Hl & Hi & Ht & Hr).
      cbn [chk_offsets] in O1, O2. apply andb_prop in O1 as [Ho1 O1], O2 as [Ho2 O2].
      apply Nat.eqb_eq in Ho1, Ho2.
      assert (Hb : b1 = b2).
      { destruct b1, b2; cbn in *; subst; reflexivity. }
      subst b2. f_equal. eapply IH; eauto using wf_tail.
Qed.

Corollary spec_unique body bs dyn :
  Spec body bs dyn -> bs = blocks body /\ dyn = has_dynamic (blocks body).
Proof.
  intros HS. pose proof HS as (F & _ & _ & _ & Hd).
  apply chk_cfg_spec in HS. unfold chk_cfg in HS. rewrite !andb_true_iff in HS.
  destruct HS as [[[[_ W] O] _] _].
  destruct (blocks_props body) as (F' & W' & O' & _).
  assert (bs = blocks body) as ->.
  { eapply partition_unique; eauto. congruence. }
  auto.
Qed.

(** ** Offsets as sums of block sizes; the terminator's position *)

Definition blk_size (b : blk) : nat :=
  lab_len (b_label b) + length (b_instrs b) + length (term_items (b_term b)).

Lemma flatten_length bs : length (flatten bs) = list_sum (map blk_size bs).
Proof.
  induction bs as [|b t IH]; [reflexivity|].
  cbn [flatten flat_map map list_sum]. rewrite app_length, blk_items_length.
  fold (flatten t). rewrite IH. reflexivity.
Qed.

Lemma wf_suffix pre bs : chk_wf (pre ++ bs) = true -> chk_wf bs = true.
Proof.
  induction pre as [|p pre IH]; [auto|]. cbn [app]. intros H. apply IH. eapply wf_tail; eauto.
Qed.

Lemma skipn_add {A} a n (L : list A) : skipn (a + n) L = skipn n (skipn a L).
Proof.
  revert L. induction a as [|a IH]; intros L; [reflexivity|].
  destruct L as [|x L]; cbn [Nat.add skipn]; [now destruct n | apply IH].
Qed.

Theorem blocks_located body pre b post :
  blocks body = pre ++ b :: post ->
  b_offset b = list_sum (map blk_size pre)
  /\ skipn (b_offset b) (strip body) = blk_items b ++ flatten post
  /\ skipn (b_offset b + lab_len (b_label b) + length (b_instrs b)) (strip body)
     = term_items (b_term b) ++ flatten post
  /\ (b_term b = TContinue -> flatten post = [] \/ exists l r, flatten post = Lbl l :: r).
Proof.
  intros Heq. destruct (blocks_props body) as (F & W & O & _).
  apply chk_offsets_Located in O.
  assert (Hsk : skipn (b_offset b) (strip body) = blk_items b ++ flatten post)
    by (eapply located_skipn; eauto).
  repeat split.
  - rewrite (O _ _ _ Heq). apply flatten_length.
  - exact Hsk.
  - rewrite <- Nat.add_assoc, skipn_add, Hsk. unfold blk_items. rewrite app_assoc.
    replace (lab_len (b_label b) + length (b_instrs b))
      with (length (label_items (b_label b) ++ map Plain (b_instrs b)))
      by (rewrite app_length, map_length, label_items_length; reflexivity).
    rewrite <- app_assoc. apply skipn_app_length.
  - rewrite Heq in W. apply wf_suffix in W. apply (wf_rest_ok _ _ W).
Qed.
