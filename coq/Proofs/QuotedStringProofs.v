(** Proofs about the quoted-string model (property C07). *)
From Coq Require Import List NArith Bool Lia.
From QV Require Import Model.QuotedString.
Import ListNotations.
Open Scope N_scope.

(** ** bytes_eqb is equality *)
Lemma bytes_eqb_eq : forall a b, bytes_eqb a b = true <-> a = b.
Proof.
  induction a as [|x a IH]; destruct b as [|y b]; cbn [bytes_eqb]; split; intro H;
    try reflexivity; try discriminate.
  - apply andb_true_iff in H as [Hx Hab]. apply N.eqb_eq in Hx. apply IH in Hab. now subst.
  - injection H as -> ->. apply andb_true_iff. split; [apply N.eqb_refl | now apply IH].
Qed.

(** ** The scanner finds the closing quote of a printed string, whatever follows it. *)
Lemma scan_escape : forall s rest, scan false (escape s ++ DQ :: rest) = Some (escape s, rest).
Proof.
  induction s as [|c t IH]; intro rest.
  - reflexivity.
  - cbn [escape]. destruct (c =? DQ) eqn:Hq; [|destruct (c =? BS) eqn:Hb].
    + (* backslash quote : the backslash sets the flag, the quote clears it *)
      cbn [app scan]. change (BS =? BS) with true. cbn match. cbn [negb].
      change (DQ =? BS) with false. cbn match. rewrite IH. reflexivity.
    + (* \\ : two toggles *)
      cbn [app scan]. change (BS =? BS) with true. cbn match. cbn [negb]. rewrite IH. reflexivity.
    + cbn [app scan]. rewrite Hb, Hq. rewrite IH. reflexivity.
Qed.

(** ** Pass 1 (backslash-quote to quote) on a printed string yields the string with only backslashes doubled. *)
Fixpoint esc_bs (s : list N) : list N :=
  match s with
  | [] => []
  | c :: t => if c =? BS then BS :: BS :: esc_bs t else c :: esc_bs t
  end.

Lemma replace_pair_cons2 : forall a b to x y t,
  replace_pair a b to (x :: y :: t) =
  if (x =? a) && (y =? b) then to ++ replace_pair a b to t else x :: replace_pair a b to (y :: t).
Proof. reflexivity. Qed.

Lemma replace_pair_skip : forall a b to x l,
  (x =? a) = false -> replace_pair a b to (x :: l) = x :: replace_pair a b to l.
Proof.
  intros a b to x l Hx. destruct l as [|y l]; cbn [replace_pair].
  - reflexivity.
  - rewrite Hx. reflexivity.
Qed.

(** a printed string never starts with a bare quote *)
Lemma escape_head : forall s, match escape s with c :: _ => (c =? DQ) = false | [] => True end.
Proof.
  destruct s as [|c t]; cbn [escape]; [exact I|].
  destruct (c =? DQ) eqn:Hq; [reflexivity|]. destruct (c =? BS); [reflexivity | exact Hq].
Qed.

Lemma replace_BS_before_escape : forall s,
  replace_pair BS DQ [DQ] (BS :: escape s) = BS :: replace_pair BS DQ [DQ] (escape s).
Proof.
  intro s. pose proof (escape_head s) as Hh. destruct (escape s) as [|y l]; cbn [replace_pair].
  - reflexivity.
  - rewrite Hh. rewrite andb_false_r. reflexivity.
Qed.

Lemma pass1_escape : forall s, replace_pair BS DQ [DQ] (escape s) = esc_bs s.
Proof.
  induction s as [|c t IH]; [reflexivity|].
  cbn [escape esc_bs]. destruct (c =? DQ) eqn:Hq; [|destruct (c =? BS) eqn:Hb].
  - apply N.eqb_eq in Hq. subst c. change (DQ =? BS) with false. cbn match.
    rewrite replace_pair_cons2. change ((BS =? BS) && (DQ =? DQ)) with true. cbn match.
    rewrite IH. reflexivity.
  - rewrite replace_pair_cons2. change ((BS =? BS) && (BS =? DQ)) with false. cbn match.
    rewrite replace_BS_before_escape, IH. reflexivity.
  - rewrite replace_pair_skip by exact Hb. rewrite IH. reflexivity.
Qed.

(** ** Pass 2 ([\\] -> [\]) undoes the doubling: every backslash sits in an aligned pair. *)
Lemma pass2_esc_bs : forall s, replace_pair BS BS [BS] (esc_bs s) = s.
Proof.
  induction s as [|c t IH]; [reflexivity|].
  cbn [esc_bs]. destruct (c =? BS) eqn:Hb.
  - apply N.eqb_eq in Hb. subst c. rewrite replace_pair_cons2.
    change ((BS =? BS) && (BS =? BS)) with true. cbn match. cbn [app]. rewrite IH. reflexivity.
  - rewrite replace_pair_skip by exact Hb. rewrite IH. reflexivity.
Qed.

Lemma unescape_escape : forall s, unescape (escape s) = s.
Proof. intro s. unfold unescape. rewrite pass1_escape. apply pass2_esc_bs. Qed.

(** ** Main theorem *)
Theorem lex_print_string : forall s rest, lex_string (print_string s ++ rest) = SOk s rest.
Proof.
  intros s rest. unfold print_string, quote. cbn [app lex_string].
  change (DQ =? DQ) with true. cbn match.
  rewrite <- app_assoc. cbn [app]. rewrite scan_escape, unescape_escape. reflexivity.
Qed.

(** Printing is injective and prefix-free: two printed strings followed by anything agree only if
    the strings and the remainders agree. *)
Corollary print_string_inj : forall s1 s2 r1 r2,
  print_string s1 ++ r1 = print_string s2 ++ r2 -> s1 = s2 /\ r1 = r2.
Proof.
  intros s1 s2 r1 r2 H. pose proof (lex_print_string s1 r1) as H1. rewrite H in H1.
  rewrite lex_print_string in H1. injection H1 as -> ->. split; reflexivity.
Qed.

(** ** A run of printed strings, each preceded by one space (DELAY frame names). *)
Definition print_strings (ss : list (list N)) : list N :=
  concat (map (fun s => SP :: print_string s) ss).

(** the remainder does not continue the run: after its leading spaces it does not open a string *)
Definition no_string_ahead (rest : list N) : Prop :=
  match skip_spaces rest with c :: _ => (c =? DQ) = false | [] => True end.

Lemma lex_strings_print : forall ss fuel rest,
  (length ss < fuel)%nat -> no_string_ahead rest ->
  lex_strings fuel (print_strings ss ++ rest) = Some (ss, rest).
Proof.
  induction ss as [|s ss IH]; intros fuel rest Hf Hr.
  - destruct fuel as [|f]; [inversion Hf|]. unfold print_strings. cbn [map concat app lex_strings].
    unfold no_string_ahead in Hr. destruct (skip_spaces rest) as [|c t]; [reflexivity|].
    rewrite Hr. reflexivity.
  - destruct fuel as [|f]; [inversion Hf|]. cbn [length] in Hf.
    unfold print_strings. cbn [map concat]. fold (print_strings ss).
    rewrite <- app_assoc. cbn [app lex_strings skip_spaces]. change (SP =? SP) with true. cbn match.
    unfold print_string at 1. unfold quote. cbn [app skip_spaces].
    change (DQ =? SP) with false. cbn match. change (DQ =? DQ) with true. cbn match.
    change (DQ :: (escape s ++ [DQ]) ++ print_strings ss ++ rest)
      with (print_string s ++ print_strings ss ++ rest).
    rewrite lex_print_string. rewrite IH by (try lia; assumption). reflexivity.
Qed.

(** ** Checker soundness *)
Lemma chk_recovered_sound : forall put got, chk_recovered put got = true -> got = Some put.
Proof.
  intros put [g|] H; cbn [chk_recovered] in H; [|discriminate].
  apply bytes_eqb_eq in H. now subst.
Qed.

(** The model's own output always passes the checker. *)
Lemma chk_accepts_model : forall s rest,
  chk_recovered s (match lex_string (print_string s ++ rest) with
                   | SOk s' _ => Some s' | _ => None end) = true.
Proof.
  intros s rest. rewrite lex_print_string. cbn [chk_recovered]. now apply bytes_eqb_eq.
Qed.
