(** Proofs about the gate-unitary model (Model/Unitary.v). *)
From Coq Require Import List NArith Bool Lia Ring.
From QV Require Import Model.Unitary.
Import ListNotations.
Open Scope N_scope.

(** * (a) The Rust tables denote the specification's matrices *)
Section TableProof.
  Variables (C A : Type).
  Variables (c0 c1 ci cs ccis4 : C) (cadd cmul csub : C -> C -> C) (copp : C -> C).
  Variables (theta : A) (half aneg : A -> A) (ccos csin ccis : A -> C).

  Hypothesis Cring : ring_theory c0 c1 cadd cmul csub copp (@eq C).
  Hypothesis euler : forall a, ccis a = cadd (ccos a) (cmul ci (csin a)).
  Hypothesis cos_even : forall a, ccos (aneg a) = ccos a.
  Hypothesis sin_odd : forall a, csin (aneg a) = copp (csin a).

  Add Ring CR : Cring.

  Notation den := (denote C A c0 c1 ci cs ccis4 cadd cmul csub copp theta half aneg ccos csin ccis).
  Notation dent := (denote_table C A c0 c1 ci cs ccis4 cadd cmul csub copp theta half aneg ccos csin ccis).

  Lemma table_equal (g : gate) : dent (model_table g) = dent (spec_table g).
  Proof.
    destruct g; cbn; try reflexivity; repeat (f_equal; try reflexivity);
      rewrite ?euler, ?cos_even, ?sin_odd; ring.
  Qed.

  Lemma tget_denote (t1 t2 : table) :
    dent t1 = dent t2 -> forall a b, den (tget t1 a b) = den (tget t2 a b).
  Proof.
    intros H a b. unfold tget.
    assert (G : forall t, den (nth (N.to_nat b) (nth (N.to_nat a) t []) E0)
                          = nth (N.to_nat b) (nth (N.to_nat a) (dent t) []) c0).
    { intros t. unfold denote_table.
      change (@nil C) with (map den []). rewrite map_nth.
      change c0 with (den E0). now rewrite map_nth. }
    now rewrite !G, H.
  Qed.

  Lemma entry_equal (g : gate) (a b : N) : den (tget (model_table g) a b) = den (tget (spec_table g) a b).
  Proof. apply tget_denote, table_equal. Qed.
End TableProof.

(** * (b) Lifting *)

Lemma sweep_ok_5 : sweep_ok 5 = true.
Proof. vm_compute. reflexivity. Qed.

Lemma In_range a b x : a <= x < b -> In x (range a b).
Proof.
  intros H. unfold range. apply in_map_iff. exists (N.to_nat (x - a)). split; [lia|].
  apply in_seq. lia.
Qed.

Lemma In_lists_upto {T} (dom : list T) k (l : list T) :
  (length l <= k)%nat -> (forall x, In x l -> In x dom) -> In l (lists_upto k dom).
Proof.
  revert l. induction k as [|k IH]; intros l Hlen Hin.
  - destruct l; [now left | cbn in Hlen; lia].
  - destruct l as [|x t]; cbn [lists_upto]; [now left|].
    right. apply in_flat_map. exists x. split; [apply Hin; now left|].
    apply in_map. apply IH; [cbn in Hlen; lia|]. intros y Hy. apply Hin. now right.
Qed.

Lemma idx_eqb_eq a b : idx_eqb a b = true -> a = b.
Proof.
  destruct a as [[x y]|], b as [[u v]|]; cbn; try discriminate; [|reflexivity].
  rewrite andb_true_iff, !N.eqb_eq. intros [-> ->]. reflexivity.
Qed.

Lemma memN_In p l : memN p l = true <-> In p l.
Proof.
  unfold memN. rewrite existsb_exists. split.
  - intros [x [Hx He]]. apply N.eqb_eq in He. now subst.
  - intros H. exists p. split; [assumption | apply N.eqb_refl].
Qed.

Lemma nodupb_NoDup l : NoDup l -> nodupb l = true.
Proof.
  induction 1 as [|x t Hx Hnd IH]; cbn; [reflexivity|].
  rewrite IH, andb_true_r. apply negb_true_iff. apply not_true_is_false.
  now rewrite memN_In.
Qed.

Lemma valid_placement_intro qs n :
  (1 <= length qs <= 3)%nat -> NoDup qs -> (forall q, In q qs -> q < n) -> valid_placement qs n = true.
Proof.
  intros Hlen Hnd Hlt. unfold valid_placement.
  rewrite !andb_true_iff. repeat split.
  - apply N.leb_le. lia.
  - apply N.leb_le. lia.
  - now apply nodupb_NoDup.
  - apply forallb_forall. intros q Hq. apply N.ltb_lt. now apply Hlt.
Qed.

(** A successful sweep up to [nmax] gives the statement for every n <= nmax (generic in [nmax]:
    nothing is computed here). *)
Lemma sweep_ok_sound nmax :
  sweep_ok nmax = true ->
  forall n qs r c,
    n <= nmax -> valid_placement qs n = true -> r < 2 ^ n -> c < 2 ^ n ->
    lift_idx_model qs (N.of_nat (length qs)) n r c = Done (lift_idx_spec qs n r c).
Proof.
  intros S n qs r c Hn Hv Hr Hc.
  unfold sweep_ok in S.
  rewrite forallb_forall in S. specialize (S n (In_range 0 (nmax + 1) n ltac:(lia))).
  rewrite forallb_forall in S.
  assert (Hin : In qs (lists_upto 3 (range 0 n))).
  { unfold valid_placement in Hv. rewrite !andb_true_iff in Hv.
    destruct Hv as [[[_ Hlen] _] Hall]. apply N.leb_le in Hlen.
    rewrite forallb_forall in Hall.
    apply In_lists_upto; [lia|]. intros q Hq. apply In_range. specialize (Hall q Hq).
    apply N.ltb_lt in Hall. lia. }
  specialize (S qs Hin). rewrite Hv in S. cbn [negb orb] in S.
  unfold placement_ok in S. unfold lift_idx_model.
  destruct (lift_fn qs (N.of_nat (length qs)) n) as [f| |]; try discriminate.
  rewrite forallb_forall in S. specialize (S r (In_range 0 (2 ^ n) r ltac:(lia))).
  rewrite forallb_forall in S. specialize (S c (In_range 0 (2 ^ n) c ltac:(lia))).
  apply idx_eqb_eq in S. now rewrite S.
Qed.

(** For every n <= 5 and every valid placement, the literal `permutation_arbitrary` model
    terminates, does not panic, and lifts exactly as "qubit 0 least significant" prescribes. *)
Lemma lift_model_spec n qs r c :
  n <= 5 -> valid_placement qs n = true -> r < 2 ^ n -> c < 2 ^ n ->
  lift_idx_model qs (N.of_nat (length qs)) n r c = Done (lift_idx_spec qs n r c).
Proof. exact (sweep_ok_sound 5 sweep_ok_5 n qs r c). Qed.

(** * (a) + (b): the modelled `to_unitary` of a standard gate is the specification's matrix lifted
    with qubit 0 least significant *)
Section Unitary.
  Variables (C A : Type).
  Variables (c0 c1 ci cs ccis4 : C) (cadd cmul csub : C -> C -> C) (copp : C -> C).
  Variables (theta : A) (half aneg : A -> A) (ccos csin ccis : A -> C).
  Hypothesis Cring : ring_theory c0 c1 cadd cmul csub copp (@eq C).
  Hypothesis euler : forall a, ccis a = cadd (ccos a) (cmul ci (csin a)).
  Hypothesis cos_even : forall a, ccos (aneg a) = ccos a.
  Hypothesis sin_odd : forall a, csin (aneg a) = copp (csin a).

  Notation den := (denote C A c0 c1 ci cs ccis4 cadd cmul csub copp theta half aneg ccos csin ccis).

  (** entry (r, c) of the modelled `Gate::to_unitary` (no modifiers) *)
  Definition unitary_model (g : gate) (qs : list N) (n r c : N) : outcome C :=
    match lift_idx_model qs (arity g) n r c with
    | Done idx => Done (lifted c0 (fun a b => den (tget (model_table g) a b)) idx)
    | Panic => Panic
    | OutOfFuel => OutOfFuel
    end.
  (** entry (r, c) of the specification's matrix on the placement [qs] in an n-qubit space *)
  Definition unitary_spec (g : gate) (qs : list N) (n r c : N) : C :=
    lifted c0 (fun a b => den (tget (spec_table g) a b)) (lift_idx_spec qs n r c).

  Lemma unitary_model_spec g qs n r c :
    n <= 5 -> N.of_nat (length qs) = arity g -> NoDup qs -> (forall q, In q qs -> q < n) ->
    r < 2 ^ n -> c < 2 ^ n ->
    unitary_model g qs n r c = Done (unitary_spec g qs n r c).
  Proof.
    intros Hn Har Hnd Hlt Hr Hc. unfold unitary_model, unitary_spec.
    assert (Hv : valid_placement qs n = true).
    { apply valid_placement_intro; auto. destruct g; cbn in Har; lia. }
    rewrite <- Har, (lift_model_spec n qs r c Hn Hv Hr Hc).
    f_equal. destruct (lift_idx_spec qs n r c) as [[a b]|]; cbn; [|reflexivity].
    apply (entry_equal C A c0 c1 ci cs ccis4 cadd cmul csub copp theta half aneg ccos csin ccis
             Cring euler cos_even sin_odd).
  Qed.
End Unitary.

(** * Syntactic equality of tables *)
Lemma ang_eqb_eq a b : ang_eqb a b = true -> a = b.
Proof. destruct a, b; cbn; congruence. Qed.

Lemma entry_eqb_eq x : forall y, entry_eqb x y = true -> x = y.
Proof.
  induction x; intros y H; destruct y; cbn in H; try discriminate; try reflexivity;
    try (apply ang_eqb_eq in H; now subst);
    try (apply andb_true_iff in H; destruct H as [H1 H2];
         rewrite (IHx1 _ H1), (IHx2 _ H2); reflexivity).
  now rewrite (IHx _ H).
Qed.

Lemma list_eqb_eq {T} (eqb : T -> T -> bool) :
  (forall x y, eqb x y = true -> x = y) -> forall a b, list_eqb eqb a b = true -> a = b.
Proof.
  intros He a. induction a as [|x a IH]; intros b H; destruct b as [|y b]; cbn in H;
    try discriminate; [reflexivity|].
  apply andb_true_iff in H. destruct H as [H1 H2]. now rewrite (He _ _ H1), (IH _ H2).
Qed.

Lemma table_eqb_eq a b : table_eqb a b = true -> a = b.
Proof. apply list_eqb_eq, list_eqb_eq. intros x y. apply entry_eqb_eq. Qed.

Lemma rows_eqb_eq a b : rows_eqb a b = true -> a = b.
Proof.
  apply list_eqb_eq, list_eqb_eq. intros [x y] [u v]. unfold pairN_eqb. cbn.
  rewrite andb_true_iff, !N.eqb_eq. intros [-> ->]. reflexivity.
Qed.

(** * The instance checker *)

(** What verdict 0 certifies about the implementation's observed matrices. *)
Definition Case14OK (x : case14) : Prop :=
  valid_placement (c_qs x) (c_n x) = true /\
  N.of_nat (length (c_qs x)) = arity (c_gate x) /\
  (* the harness's spec formula is the specification's table, symbol by symbol *)
  c_sym x = spec_table (c_gate x) /\
  (* the implementation's base matrix equals it numerically, and for constant gates also as
     recognised constants *)
  c_num x = true /\
  (parameterised (c_gate x) = false -> c_base x = Some (spec_table (c_gate x))) /\
  (* the lifted matrix has exactly the specified index structure *)
  c_rows x = expected_rows (lift_idx_spec (c_qs x) (c_n x)) (c_bcls x) (c_n x).

Lemma case14_sound x : case14_verdict x = 0 -> Case14OK x.
Proof.
  unfold case14_verdict, Case14OK.
  destruct (valid_placement (c_qs x) (c_n x)) eqn:V; [|discriminate]. cbn [andb].
  destruct (N.of_nat (length (c_qs x)) =? arity (c_gate x)) eqn:Ar; [|discriminate]. cbn [andb].
  destruct (table_eqb (c_sym x) (spec_table (c_gate x))) eqn:Sy; [|discriminate]. cbn [negb].
  destruct (chk_table x) eqn:T; [|discriminate]. cbn [negb].
  destruct (chk_lift x) eqn:L; [|discriminate]. cbn [negb]. intros _.
  apply N.eqb_eq in Ar. apply table_eqb_eq in Sy. apply rows_eqb_eq in L.
  unfold chk_table in T. apply andb_true_iff in T. destruct T as [T1 T2].
  repeat split; auto.
  intros Hp. destruct (c_base x) as [t|].
  - apply andb_true_iff in T2. destruct T2 as [_ T2]. apply table_eqb_eq in T2. now subst.
  - congruence.
Qed.
