(** Proofs of unitarity (C15): the gate tables, CONTROLLED / FORKED blocks, the lifting to n qubits,
    every modifier stack, every gate-only program.  Definitions: Model/Unitarity.v. *)
From Coq Require Import List NArith Bool Lia Ring ZArith QArith Qcanon.
From QV Require Import Model.Unitary Model.Modifiers Model.Unitarity
  Proofs.UnitaryProofs Proofs.ModifiersProofs.
Import ListNotations.
Open Scope N_scope.

(** * Bits of a basis index *)

Lemma testbit_setbit x q b p : N.testbit (setbit x q b) p = if p =? q then b else N.testbit x p.
Proof.
  unfold setbit. destruct b.
  - rewrite N.setbit_eqb, (N.eqb_sym q p). destruct (p =? q); reflexivity.
  - rewrite N.clearbit_eqb, (N.eqb_sym q p). destruct (p =? q); cbn; [apply andb_false_r | apply andb_true_r].
Qed.

Lemma lt_pow2_bits x n : x < 2 ^ n <-> (forall m, n <= m -> N.testbit x m = false).
Proof.
  split.
  - intros H m Hm. destruct (N.eq_dec x 0) as [->|Hx]; [apply N.bits_0|].
    apply N.bits_above_log2. apply N.log2_lt_pow2 in H; lia.
  - intros H. assert (E : x = x mod 2 ^ n).
    { apply N.bits_inj. intros m. destruct (N.lt_ge_cases m n) as [Hm|Hm].
      - now rewrite N.mod_pow2_bits_low.
      - rewrite N.mod_pow2_bits_high by assumption. now apply H. }
    rewrite E. apply N.mod_lt. apply N.pow_nonzero. lia.
Qed.

Lemma gather_gat qs x : gather qs x = gat (rev qs) x.
Proof.
  unfold gather. induction qs as [|q t IH] using rev_ind; [reflexivity|].
  rewrite fold_left_app, rev_app_distr. cbn [fold_left rev app gat]. rewrite IH. lia.
Qed.

Lemma gat_lt l x : gat l x < 2 ^ N.of_nat (length l).
Proof.
  induction l as [|q t IH]; cbn [gat length]; [cbn; lia|].
  rewrite Nat2N.inj_succ, N.pow_succ_r'. destruct (N.testbit x q); cbn [N.b2n]; lia.
Qed.

Lemma scat_high l n : (forall q, In q l -> q < n) ->
  forall a x m, n <= m -> N.testbit (scat l a x) m = N.testbit x m.
Proof.
  induction l as [|q t IH]; intros Hl a x m Hm; [reflexivity|]. cbn [scat].
  rewrite IH by (auto using in_cons). rewrite testbit_setbit.
  assert (E : (m =? q) = false). { apply N.eqb_neq. specialize (Hl q (in_eq _ _)). lia. }
  now rewrite E.
Qed.

Lemma scat_lt l n a x : (forall q, In q l -> q < n) -> x < 2 ^ n -> scat l a x < 2 ^ n.
Proof.
  intros Hl Hx. apply lt_pow2_bits. intros m Hm. rewrite (scat_high l n Hl) by assumption.
  now apply (proj1 (lt_pow2_bits x n)).
Qed.

Lemma b2n_double_eq (b : bool) (g a : N) : N.b2n b + 2 * g = a <-> (b = N.odd a /\ g = a / 2).
Proof.
  split.
  - intros <-. split.
    + now rewrite <- N.bit0_odd, N.add_b2n_double_bit0.
    + now rewrite N.add_b2n_double_div2.
  - intros [-> ->]. rewrite <- N.div2_div. rewrite (N.div2_odd a) at 3. lia.
Qed.

(** The index split is a bijection: [k] has the bits of [r] off [l] and gate index [a] iff
    [k = scat l a r]. *)
Lemma scat_spec l : NoDup l -> forall a k r, a < 2 ^ N.of_nat (length l) ->
  ((forall p, ~ In p l -> N.testbit k p = N.testbit r p) /\ gat l k = a) <-> k = scat l a r.
Proof.
  induction 1 as [|q t Hq Hnd IH]; intros a k r Ha.
  - cbn in Ha. cbn [gat scat]. split.
    + intros [H _]. apply N.bits_inj. intros p. apply H. intros [].
    + intros ->. split; [reflexivity | lia].
  - cbn [gat scat length] in *. rewrite Nat2N.inj_succ, N.pow_succ_r' in Ha.
    assert (Ha2 : a / 2 < 2 ^ N.of_nat (length t)) by (apply N.div_lt_upper_bound; lia).
    rewrite <- (IH (a / 2) k (setbit r q (N.odd a)) Ha2). rewrite b2n_double_eq. split.
    + intros [H1 [H2 H3]]. split; [|exact H3]. intros p Hp. rewrite testbit_setbit.
      destruct (p =? q) eqn:E.
      * apply N.eqb_eq in E. now subst.
      * apply H1. intros [->|Hin]; [now rewrite N.eqb_refl in E | contradiction].
    + intros [H1 H3]. split; [|split; [|exact H3]].
      * intros p Hp. rewrite H1 by (intros Hin; apply Hp; now right). rewrite testbit_setbit.
        assert (E : (p =? q) = false) by (apply N.eqb_neq; intros ->; apply Hp; now left).
        now rewrite E.
      * rewrite (H1 q Hq), testbit_setbit. now rewrite N.eqb_refl.
Qed.

Lemma rest_agree_iff qs n k r :
  k < 2 ^ n -> r < 2 ^ n ->
  rest_agree (others_of qs n) k r = true <-> (forall p, ~ In p qs -> N.testbit k p = N.testbit r p).
Proof.
  intros Hk Hr. unfold rest_agree, others_of. rewrite forallb_forall. split.
  - intros H p Hp. destruct (N.lt_ge_cases p n) as [Hpn|Hpn].
    + apply eqb_prop, H. apply filter_In. split.
      * apply In_range. lia.
      * apply negb_true_iff. apply not_true_is_false. now rewrite memN_In.
    + now rewrite (proj1 (lt_pow2_bits k n) Hk p Hpn), (proj1 (lt_pow2_bits r n) Hr p Hpn).
  - intros H p Hp. apply filter_In in Hp. destruct Hp as [_ Hp]. apply negb_true_iff in Hp.
    rewrite H; [apply eqb_reflx|]. rewrite <- memN_In. congruence.
Qed.

Lemma bool_eq_iff (a b : bool) : (a = true <-> b = true) -> a = b.
Proof.
  destruct a, b; intros [H1 H2]; try reflexivity; [symmetry; now apply H1 | now apply H2].
Qed.

(** The three facts the re-indexing of sums needs, for any n and any injective placement. *)
Lemma split_bij qs n :
  NoDup qs -> (forall q, In q qs -> q < n) ->
  let e := rest_agree (others_of qs n) in
  let d := 2 ^ N.of_nat (length qs) in
  (forall k, gather qs k < d) /\
  (forall a r, r < 2 ^ n -> scatter qs a r < 2 ^ n) /\
  (forall a k r, a < d -> k < 2 ^ n -> r < 2 ^ n ->
     (e k r && (gather qs k =? a)) = (k =? scatter qs a r)).
Proof.
  intros Hnd Hlt e d.
  assert (Hlt' : forall q, In q (rev qs) -> q < n) by (intros q Hq; apply Hlt; now apply in_rev).
  split; [|split].
  - intros k. rewrite gather_gat. unfold d. rewrite <- rev_length. apply gat_lt.
  - intros a r Hr. unfold scatter. now apply scat_lt.
  - intros a k r Ha Hk Hr. apply bool_eq_iff.
    rewrite andb_true_iff, !N.eqb_eq. unfold e. rewrite (rest_agree_iff qs n k r Hk Hr).
    unfold scatter. rewrite gather_gat.
    rewrite <- (scat_spec (rev qs)); [| now apply NoDup_rev | now rewrite rev_length].
    split; intros [H1 H2]; (split; [|exact H2]); intros p Hp; apply H1; intros Hin; apply Hp;
      [now rewrite <- in_rev | now rewrite in_rev].
Qed.

Lemma rest_agree_refl o r : rest_agree o r r = true.
Proof. unfold rest_agree. apply forallb_forall. intros p _. apply eqb_reflx. Qed.

Lemma rest_agree_trans o a b c :
  rest_agree o a b = true -> rest_agree o b c = true -> rest_agree o a c = true.
Proof.
  unfold rest_agree. rewrite !forallb_forall. intros H1 H2 p Hp.
  specialize (H1 p Hp). specialize (H2 p Hp). apply eqb_prop in H1, H2. rewrite H1, H2. apply eqb_reflx.
Qed.

(** * Matrices over a commutative ring with conjugation *)
Section Gen.
  Variable C : Type.
  Variables (c0 c1 : C) (cadd cmul csub : C -> C -> C) (copp : C -> C) (cconj : C -> C).
  Hypothesis Cring : ring_theory c0 c1 cadd cmul csub copp (@eq C).
  Hypothesis conj_0 : cconj c0 = c0.
  Hypothesis conj_1 : cconj c1 = c1.
  Hypothesis conj_add : forall a b, cconj (cadd a b) = cadd (cconj a) (cconj b).
  Hypothesis conj_mul : forall a b, cconj (cmul a b) = cmul (cconj a) (cconj b).
  Hypothesis conj_invol : forall a, cconj (cconj a) = a.

  Add Ring CRu : Cring.

  Notation mat := (mat C).
  Notation eye := (eye C c0 c1).
  Notation msum := (msum C c0 cadd).
  Notation mmul := (mmul C c0 cadd cmul).
  Notation madj := (madj C cconj).
  Notation unitary := (unitary C c0 c1 cadd cmul cconj).
  Notation blk := (blk C c0).
  Notation forked := (forked C c0 c1 cadd cmul).
  Notation controlled := (controlled C c0 c1 cadd cmul).
  Notation dagger := (dagger C cconj).
  Notation msum_ext := (msum_ext C c0 cadd).
  Notation msum_zero := (msum_zero C c0 c1 cadd cmul csub copp Cring).
  Notation msum_add := (msum_add C c0 c1 cadd cmul csub copp Cring).
  Notation msum_swap := (msum_swap C c0 c1 cadd cmul csub copp Cring).
  Notation msum_delta_l := (msum_delta_l C c0 c1 cadd cmul csub copp Cring).
  Notation mmul_ext := (mmul_ext C c0 cadd cmul).

  (** "A^dagger A = I" on the d x d block *)
  Definition iso (d : nat) (A : N -> N -> C) : Prop :=
    forall r c, r < N.of_nat d -> c < N.of_nat d -> mmul d (madj A) A r c = eye r c.

  Lemma unitary_iso d A : unitary d A <-> iso d A /\ iso d (madj A).
  Proof.
    unfold ModifiersProofs.unitary, iso. split; intros [H1 H2]; (split; [exact H1|]); intros r c Hr Hc.
    - rewrite <- (H2 r c Hr Hc). apply mmul_ext; intros k _; [apply madj_madj, conj_invol | reflexivity].
    - rewrite <- (H2 r c Hr Hc). apply mmul_ext; intros k _; [symmetry; apply madj_madj, conj_invol | reflexivity].
  Qed.

  Lemma iso_ext d A B :
    (forall r c, r < N.of_nat d -> c < N.of_nat d -> A r c = B r c) -> iso d A -> iso d B.
  Proof.
    intros E H r c Hr Hc. rewrite <- (H r c Hr Hc). apply mmul_ext; intros k Hk.
    - unfold Modifiers.madj. now rewrite E.
    - now rewrite E.
  Qed.

  Lemma unitary_ext d A B :
    (forall r c, r < N.of_nat d -> c < N.of_nat d -> A r c = B r c) -> unitary d A -> unitary d B.
  Proof.
    intros E [H1 H2]. split; intros r c Hr Hc;
      [rewrite <- (H1 r c Hr Hc) | rewrite <- (H2 r c Hr Hc)];
      apply mmul_ext; intros k Hk; unfold Modifiers.madj; now rewrite E.
  Qed.

  (** ** Sums *)
  Lemma msum_split f a b :
    msum f (a + b) = cadd (msum f a) (msum (fun i => f (N.of_nat a + i)) b).
  Proof.
    induction b as [|b IH].
    - rewrite Nat.add_0_r. cbn. ring.
    - rewrite Nat.add_succ_r. cbn [Modifiers.msum]. rewrite IH, Nat2N.inj_add. ring.
  Qed.

  Lemma msum_all_zero f k : (forall i, i < N.of_nat k -> f i = c0) -> msum f k = c0.
  Proof.
    intros H. transitivity (msum (fun _ => c0) k); [now apply msum_ext | apply msum_zero].
  Qed.

  Lemma msum_delta_if (F : N -> C) x d :
    x < N.of_nat d -> msum (fun a => if x =? a then F a else c0) d = F x.
  Proof.
    intros H. rewrite <- (msum_delta_l F x d H). apply msum_ext. intros i _.
    unfold Modifiers.eye. destruct (x =? i); ring.
  Qed.

  (** Re-indexing a sum along a bijection between {k < D | P k} and [0, d). *)
  Lemma msum_reindex (D d : nat) (P : N -> bool) (g h : N -> N) (F : N -> C) :
    (forall k, k < N.of_nat D -> P k = true -> g k < N.of_nat d) ->
    (forall a, a < N.of_nat d -> h a < N.of_nat D) ->
    (forall a k, a < N.of_nat d -> k < N.of_nat D -> (P k && (g k =? a)) = (k =? h a)) ->
    msum (fun k => if P k then F (g k) else c0) D = msum F d.
  Proof.
    intros Hg Hh Hb.
    rewrite (msum_ext _ (fun k => msum (fun a => if k =? h a then F a else c0) d)).
    - rewrite msum_swap. apply msum_ext. intros a Ha.
      rewrite (msum_ext _ (fun k => if h a =? k then F a else c0)).
      + now rewrite (msum_delta_if (fun _ => F a) (h a) D (Hh a Ha)).
      + intros k _. now rewrite N.eqb_sym.
    - intros k Hk. destruct (P k) eqn:E.
      + rewrite <- (msum_delta_if F (g k) d (Hg k Hk E)). apply msum_ext. intros a Ha.
        rewrite <- (Hb a k Ha Hk), E. reflexivity.
      + transitivity (msum (fun _ => c0) d); [symmetry; apply msum_zero|].
        apply msum_ext. intros a Ha. rewrite <- (Hb a k Ha Hk), E. reflexivity.
  Qed.

  (** ** Block-diagonal matrices (CONTROLLED / FORKED) *)
  Lemma blk_ll d X Y r c : r < d -> c < d -> blk d X Y r c = X r c.
  Proof.
    intros Hr Hc. unfold Unitarity.blk.
    now rewrite (proj2 (N.ltb_lt r d) Hr), (proj2 (N.ltb_lt c d) Hc).
  Qed.
  Lemma blk_hh d X Y r c : d <= r -> d <= c -> blk d X Y r c = Y (r - d) (c - d).
  Proof.
    intros Hr Hc. unfold Unitarity.blk.
    now rewrite (proj2 (N.ltb_ge r d) Hr), (proj2 (N.leb_le d r) Hr), (proj2 (N.leb_le d c) Hc).
  Qed.
  Lemma blk_lh d X Y r c : r < d -> d <= c -> blk d X Y r c = c0.
  Proof.
    intros Hr Hc. unfold Unitarity.blk.
    rewrite (proj2 (N.ltb_ge c d) Hc), andb_false_r.
    assert (E : (d <=? r) = false) by (apply N.leb_gt; lia). now rewrite E.
  Qed.
  Lemma blk_hl d X Y r c : d <= r -> c < d -> blk d X Y r c = c0.
  Proof.
    intros Hr Hc. unfold Unitarity.blk.
    rewrite (proj2 (N.ltb_ge r d) Hr). cbn [andb].
    assert (E : (d <=? c) = false) by (apply N.leb_gt; lia). now rewrite E, andb_false_r.
  Qed.

  Lemma madj_blk d A0 A1 r c : madj (blk d A0 A1) r c = blk d (madj A0) (madj A1) r c.
  Proof.
    unfold Modifiers.madj, Unitarity.blk. rewrite (andb_comm (c <? d)), (andb_comm (d <=? c)).
    destruct ((r <? d) && (c <? d)); [reflexivity|].
    destruct ((d <=? r) && (d <=? c)); [reflexivity | apply conj_0].
  Qed.

  Lemma eye_neq r c : r <> c -> eye r c = c0.
  Proof. intros H. unfold Modifiers.eye. apply N.eqb_neq in H. now rewrite H. Qed.

  Lemma iso_blk d A0 A1 : iso d A0 -> iso d A1 -> iso (d + d) (blk (N.of_nat d) A0 A1).
  Proof.
    intros H0 H1 r c Hr Hc. rewrite Nat2N.inj_add in Hr, Hc.
    set (dN := N.of_nat d) in *. set (B := blk dN A0 A1).
    assert (S1 : msum (fun k => cmul (madj B r k) (B k c)) d
                 = if (r <? dN) && (c <? dN) then eye r c else c0).
    { destruct (N.ltb_spec r dN) as [Er|Er], (N.ltb_spec c dN) as [Ec|Ec]; cbn [andb].
      - rewrite <- (H0 r c Er Ec). apply msum_ext. intros k Hk. unfold B.
        now rewrite madj_blk, !blk_ll.
      - apply msum_all_zero. intros k Hk. unfold B.
        rewrite (blk_lh dN A0 A1 k c) by assumption. ring.
      - apply msum_all_zero. intros k Hk. unfold B.
        rewrite madj_blk, (blk_hl dN _ _ r k) by assumption. ring.
      - apply msum_all_zero. intros k Hk. unfold B.
        rewrite (blk_lh dN A0 A1 k c) by assumption. ring. }
    assert (S2 : msum (fun i => cmul (madj B r (dN + i)) (B (dN + i) c)) d
                 = if (dN <=? r) && (dN <=? c) then eye (r - dN) (c - dN) else c0).
    { destruct (N.leb_spec dN r) as [Er|Er], (N.leb_spec dN c) as [Ec|Ec]; cbn [andb].
      - rewrite <- (H1 (r - dN) (c - dN)) by lia. apply msum_ext. intros i Hi. unfold B.
        rewrite madj_blk, !blk_hh by lia. now replace (dN + i - dN) with i by lia.
      - apply msum_all_zero. intros i Hi. unfold B.
        rewrite (blk_hl dN A0 A1 (dN + i) c) by lia. ring.
      - apply msum_all_zero. intros i Hi. unfold B.
        rewrite madj_blk, (blk_lh dN _ _ r (dN + i)) by lia. ring.
      - apply msum_all_zero. intros i Hi. unfold B.
        rewrite (blk_hl dN A0 A1 (dN + i) c) by lia. ring. }
    transitivity (cadd (msum (fun k => cmul (madj B r k) (B k c)) d)
                       (msum (fun i => cmul (madj B r (dN + i)) (B (dN + i) c)) d)).
    { exact (msum_split (fun k => cmul (madj B r k) (B k c)) d d). }
    rewrite S1, S2.
    destruct (N.ltb_spec r dN) as [Er|Er], (N.ltb_spec c dN) as [Ec|Ec];
      destruct (N.leb_spec dN r) as [Er'|Er'], (N.leb_spec dN c) as [Ec'|Ec']; try lia; cbn [andb].
    - ring.
    - rewrite eye_neq by lia. ring.
    - rewrite eye_neq by lia. ring.
    - unfold Modifiers.eye.
      destruct (N.eqb_spec (r - dN) (c - dN)), (N.eqb_spec r c); try lia; ring.
  Qed.

  Lemma unitary_blk d A0 A1 :
    unitary d A0 -> unitary d A1 -> unitary (d + d) (blk (N.of_nat d) A0 A1).
  Proof.
    rewrite !unitary_iso. intros [H0 H0'] [H1 H1']. split.
    - now apply iso_blk.
    - apply (iso_ext (d + d) (blk (N.of_nat d) (madj A0) (madj A1))).
      + intros r c _ _. symmetry. apply madj_blk.
      + now apply iso_blk.
  Qed.

  (** FORKED: |0><0| (x) U1 + |1><1| (x) U2 is unitary when U1 and U2 (of the same size) are. *)
  Lemma to_nat_mdim_succ q : N.to_nat (2 ^ (q + 1)) = (N.to_nat (2 ^ q) + N.to_nat (2 ^ q))%nat.
  Proof. rewrite N.add_1_r, N.pow_succ_r'. lia. Qed.

  Lemma unitary_forked (m0 m1 : mat) :
    mq C m0 = mq C m1 ->
    unitary (N.to_nat (mdim C m0)) (ment C m0) -> unitary (N.to_nat (mdim C m1)) (ment C m1) ->
    unitary (N.to_nat (mdim C (forked m0 m1))) (ment C (forked m0 m1)).
  Proof.
    intros Hq U0 U1. unfold mdim in *. rewrite <- Hq in U1. cbn [mq Modifiers.forked].
    rewrite to_nat_mdim_succ.
    apply (unitary_ext _ (blk (N.of_nat (N.to_nat (2 ^ mq C m0))) (ment C m0) (ment C m1))).
    - intros r c Hr Hc. rewrite N2Nat.id. symmetry.
      apply (forked_blocks C c0 c1 cadd cmul csub copp Cring m0 m1 r c); unfold mdim; lia.
    - now apply unitary_blk.
  Qed.

  Lemma unitary_eye_any d : unitary d eye.
  Proof. exact (unitary_eye C c0 c1 cadd cmul csub copp cconj Cring conj_0 conj_1 d). Qed.

  (** CONTROLLED: |0><0| (x) I + |1><1| (x) U is unitary when U is. *)
  Lemma unitary_controlled (m : mat) :
    unitary (N.to_nat (mdim C m)) (ment C m) ->
    unitary (N.to_nat (mdim C (controlled m))) (ment C (controlled m)).
  Proof.
    intros U. change (controlled m) with (forked (Mat (mq C m) eye) m).
    apply unitary_forked; [reflexivity | apply unitary_eye_any | exact U].
  Qed.

  Lemma unitary_dagger (m : mat) :
    unitary (N.to_nat (mdim C m)) (ment C m) ->
    unitary (N.to_nat (mdim C (dagger m))) (ment C (dagger m)).
  Proof.
    intros U. change (unitary (N.to_nat (mdim C m)) (madj (ment C m))).
    now apply (unitary_adj C c0 c1 cadd cmul cconj conj_invol).
  Qed.

  (** ** Tensoring with the identity along an index split

      [e r c]: r and c agree off the gate's qubits; [g r]: the gate's index inside r; [h a r]: r
      with the gate's index replaced by a.  The matrix L r c = [e r c] M (g r) (g c) is "M on the
      gate's qubits, identity elsewhere"; sums over k < D split into (g k, rest of k). *)
  Lemma iso_lift_gen (D d : nat) (e : N -> N -> bool) (g : N -> N) (h : N -> N -> N) M :
    (forall r, e r r = true) -> (forall a b, e a b = e b a) ->
    (forall a b c, e a b = true -> e b c = true -> e a c = true) ->
    (forall k, g k < N.of_nat d) ->
    (forall a r, r < N.of_nat D -> h a r < N.of_nat D) ->
    (forall a k r, a < N.of_nat d -> k < N.of_nat D -> r < N.of_nat D ->
                   (e k r && (g k =? a)) = (k =? h a r)) ->
    iso d M -> iso D (fun r c => if e r c then M (g r) (g c) else c0).
  Proof.
    intros Erefl Esym Etrans Hg Hh Hb HM r c Hr Hc. unfold Modifiers.mmul, Modifiers.madj.
    destruct (e r c) eqn:Erc.
    - rewrite (msum_ext _ (fun k => if e k r
                                    then (fun a => cmul (cconj (M a (g r))) (M a (g c))) (g k) else c0)).
      2:{ intros k Hk. destruct (e k r) eqn:Ekr.
          - now rewrite (Etrans k r c Ekr Erc).
          - rewrite conj_0. ring. }
      rewrite (msum_reindex D d (fun k => e k r) g (fun a => h a r)
                 (fun a => cmul (cconj (M a (g r))) (M a (g c)))).
      + change (mmul d (madj M) M (g r) (g c) = eye r c). rewrite (HM _ _ (Hg r) (Hg c)).
        unfold Modifiers.eye.
        destruct (N.eqb_spec (g r) (g c)) as [E|E], (N.eqb_spec r c) as [E'|E']; try reflexivity.
        * exfalso. apply E'.
          pose proof (Hb (g c) r c (Hg c) Hr Hc) as B1. rewrite Erc, E, N.eqb_refl in B1.
          pose proof (Hb (g c) c c (Hg c) Hc Hc) as B2. rewrite Erefl, N.eqb_refl in B2.
          cbn in B1, B2. symmetry in B1, B2. apply N.eqb_eq in B1, B2. congruence.
        * subst. contradiction.
      + intros k _ _. apply Hg.
      + intros a _. now apply Hh.
      + intros a k Ha Hk. now apply Hb.
    - rewrite eye_neq by (intros ->; rewrite Erefl in Erc; discriminate).
      apply msum_all_zero. intros k Hk.
      destruct (e k r) eqn:Ekr; [|rewrite conj_0; ring].
      destruct (e k c) eqn:Ekc; [|ring].
      rewrite Esym in Ekr. rewrite (Etrans r k c Ekr Ekc) in Erc. discriminate.
  Qed.

  Lemma lift_spec_entry M qs n r c :
    lift_spec C c0 M qs n r c
    = if rest_agree (others_of qs n) r c then M (gather qs r) (gather qs c) else c0.
  Proof.
    unfold lift_spec, lift_idx_spec, others_of. cbv zeta beta.
    destruct (rest_agree _ r c); reflexivity.
  Qed.

  Lemma madj_lift_spec M qs n r c :
    madj (lift_spec C c0 M qs n) r c = lift_spec C c0 (madj M) qs n r c.
  Proof.
    unfold Modifiers.madj. rewrite !lift_spec_entry, (rest_agree_sym _ c r).
    destruct (rest_agree _ r c); [reflexivity | apply conj_0].
  Qed.

  Lemma iso_lift M qs n :
    NoDup qs -> (forall q, In q qs -> q < n) ->
    iso (N.to_nat (2 ^ N.of_nat (length qs))) M -> iso (N.to_nat (2 ^ n)) (lift_spec C c0 M qs n).
  Proof.
    intros Hnd Hlt HM. destruct (split_bij qs n Hnd Hlt) as [Hg [Hs Hb]].
    apply (iso_ext _ (fun r c => if rest_agree (others_of qs n) r c
                                 then M (gather qs r) (gather qs c) else c0)).
    - intros r c _ _. symmetry. apply lift_spec_entry.
    - apply (iso_lift_gen (N.to_nat (2 ^ n)) (N.to_nat (2 ^ N.of_nat (length qs))) _ _ (scatter qs));
        try assumption; rewrite ?N2Nat.id.
      + apply rest_agree_refl.
      + intros a b. apply rest_agree_sym.
      + apply rest_agree_trans.
      + exact Hg.
      + exact Hs.
      + exact Hb.
  Qed.

  (** The lifted matrix of a unitary matrix is unitary — any n, any injective placement. *)
  Lemma unitary_lift_spec M qs n :
    NoDup qs -> (forall q, In q qs -> q < n) ->
    unitary (N.to_nat (2 ^ N.of_nat (length qs))) M ->
    unitary (N.to_nat (2 ^ n)) (lift_spec C c0 M qs n).
  Proof.
    intros Hnd Hlt. rewrite !unitary_iso. intros [H1 H2]. split.
    - now apply iso_lift.
    - apply (iso_ext _ (lift_spec C c0 (madj M) qs n)).
      + intros r c _ _. symmetry. apply madj_lift_spec.
      + now apply iso_lift.
  Qed.

  (** The literal model of `lifted_gate_matrix` (scope of C14_lift): the same matrix, hence unitary. *)
  Lemma unitary_lift_model M qs n :
    n <= 5 -> (1 <= length qs <= 3)%nat -> NoDup qs -> (forall q, In q qs -> q < n) ->
    unitary (N.to_nat (2 ^ N.of_nat (length qs))) M ->
    unitary (N.to_nat (2 ^ n)) (lift_model C c0 M qs (N.of_nat (length qs)) n).
  Proof.
    intros Hn Hlen Hnd Hlt HM.
    apply (unitary_ext _ (lift_spec C c0 M qs n)); [|now apply unitary_lift_spec].
    intros r c Hr Hc. rewrite N2Nat.id in Hr, Hc. unfold lift_model, lift_spec.
    rewrite (lift_model_spec n qs r c Hn); auto. now apply valid_placement_intro.
  Qed.

  (** ** Modifier stacks, `to_unitary`, programs — for any family of unitary tables *)
  Section Stacks.
    Variable P : Type.
    Variable base : gate -> option P -> N -> N -> C.
    Hypothesis base_unitary : forall g p, unitary (N.to_nat (2 ^ arity g)) (base g p).

    Notation gm := (gm C c0 c1 cadd cmul cconj P base).
    Notation gate_matrix := (gate_matrix C c0 c1 cadd cmul cconj P base).
    Notation spec_matrix := (spec_matrix C c0 c1 cadd cmul cconj P base).

    Lemma mod_count_cons x s :
      mod_count (x :: s) = (match x with MDagger => 0 | _ => 1 end) + mod_count s.
    Proof. unfold mod_count. destruct x; cbn [filter length]; lia. Qed.

    Lemma mod_count_rev s : mod_count (rev s) = mod_count s.
    Proof.
      induction s as [|x s IH]; [reflexivity|]. cbn [rev]. rewrite mod_count_cons, <- IH.
      unfold mod_count. rewrite filter_app, app_length. destruct x; cbn [filter length]; lia.
    Qed.

    Lemma base_matrix_inv g p m :
      base_matrix C P base g p = Ok m -> exists o, m = Mat (arity g) (base g o).
    Proof.
      unfold base_matrix. destruct p as [|a [|b t]]; destruct (parameterised g); intros H;
        inversion H; eauto.
    Qed.

    (** the matrix of a stack has one qubit per CONTROLLED / FORKED on top of the gate's *)
    Lemma gm_mq g s : forall p m, gm g s p = Ok m -> mq C m = arity g + mod_count s.
    Proof.
      induction s as [|x s IH]; intros p m H.
      - cbn in H. apply base_matrix_inv in H. destruct H as [o ->]. cbn. unfold mod_count. cbn. lia.
      - rewrite mod_count_cons. destruct x; cbn [Modifiers.gm] in H.
        + destruct (gm g s p) as [m'|] eqn:E; cbn in H; [|discriminate]; injection H as <-.
          cbn [mq Modifiers.controlled Modifiers.dagger]. rewrite (IH p m' E). lia.
        + destruct (gm g s p) as [m'|] eqn:E; cbn in H; [|discriminate]; injection H as <-.
          cbn [mq Modifiers.controlled Modifiers.dagger]. rewrite (IH p m' E). lia.
        + destruct (Nat.odd (length p)); [discriminate|].
          destruct (gm g s (firstn _ p)) as [m0|] eqn:E0; cbn in H; [|discriminate].
          destruct (gm g s (skipn _ p)) as [m1|] eqn:E1; cbn in H; [|discriminate]; injection H as <-.
          cbn [mq Modifiers.forked]. rewrite (IH _ m0 E0). lia.
    Qed.

    (** EVERY stack (the recursion [gm] underlies both gate_matrix and the Quil semantics). *)
    Lemma gm_unitary g s : forall p m, gm g s p = Ok m -> unitary (N.to_nat (mdim C m)) (ment C m).
    Proof.
      induction s as [|x s IH]; intros p m H.
      - cbn in H. apply base_matrix_inv in H. destruct H as [o ->]. apply base_unitary.
      - destruct x; cbn [Modifiers.gm] in H.
        + destruct (gm g s p) as [m'|] eqn:E; cbn in H; [|discriminate]; injection H as <-.
          apply unitary_controlled. now apply (IH p).
        + destruct (gm g s p) as [m'|] eqn:E; cbn in H; [|discriminate]; injection H as <-.
          apply unitary_dagger. now apply (IH p).
        + destruct (Nat.odd (length p)); [discriminate|].
          destruct (gm g s (firstn _ p)) as [m0|] eqn:E0; cbn in H; [|discriminate].
          destruct (gm g s (skipn _ p)) as [m1|] eqn:E1; cbn in H; [|discriminate]; injection H as <-.
          apply unitary_forked.
          * now rewrite (gm_mq g s _ m0 E0), (gm_mq g s _ m1 E1).
          * exact (IH _ m0 E0).
          * exact (IH _ m1 E1).
    Qed.

    Lemma gate_matrix_unitary g s p m :
      gate_matrix g s p = Ok m -> unitary (N.to_nat (mdim C m)) (ment C m).
    Proof. apply gm_unitary. Qed.
    Lemma spec_matrix_unitary g s p m :
      spec_matrix g s p = Ok m -> unitary (N.to_nat (mdim C m)) (ment C m).
    Proof. apply gm_unitary. Qed.

    (** `Gate::to_unitary(n)`: the Quil semantics lifted (any n), and the literal model (n <= 5, at
        most 3 qubits: the scope of C14_lift). *)
    Lemma gate_unitary_spec_unitary n (x : mgate P) m :
      spec_matrix (g_name P x) (g_mods P x) (g_params P x) = Ok m ->
      N.of_nat (length (g_qubits P x)) = mq C m ->
      NoDup (g_qubits P x) -> (forall q, In q (g_qubits P x) -> q < n) ->
      unitary (N.to_nat (2 ^ n)) (gate_unitary_spec C c0 c1 cadd cmul cconj P base n x).
    Proof.
      intros Hm Hlen Hnd Hlt.
      apply (unitary_ext _ (lift_spec C c0 (ment C m) (g_qubits P x) n)).
      - intros r c _ _. unfold gate_unitary_spec, to_unitary_spec. now rewrite Hm.
      - apply unitary_lift_spec; auto. rewrite Hlen. now apply (spec_matrix_unitary _ _ _ _ Hm).
    Qed.

    Lemma gate_unitary_model_unitary n (x : mgate P) :
      n <= 5 -> (length (g_qubits P x) <= 3)%nat ->
      gate_ok C c0 c1 cadd cmul cconj P base n x ->
      unitary (N.to_nat (2 ^ n)) (gate_unitary_model C c0 c1 cadd cmul cconj P base n x).
    Proof.
      intros Hn Hlen3 [[m Hm] [Hlen [Hnd Hlt]]].
      assert (Hq : mq C m = N.of_nat (length (g_qubits P x))).
      { rewrite (gm_mq _ _ _ _ Hm), mod_count_rev. now symmetry. }
      apply (unitary_ext _ (lift_model C c0 (ment C m) (g_qubits P x)
                                       (N.of_nat (length (g_qubits P x))) n)).
      - intros r c _ _. unfold gate_unitary_model, to_unitary_model, lift_model, lift_entry.
        rewrite Hm, Hq. destruct (lift_idx_model _ _ n r c); reflexivity.
      - apply unitary_lift_model; auto.
        + split; [|exact Hlen3]. assert (1 <= arity (g_name P x)) by (destruct (g_name P x); cbn; lia). lia.
        + rewrite <- Hq. now apply (gate_matrix_unitary _ _ _ _ Hm).
    Qed.

    (** Every gate-only program of well-formed gates has a unitary unitary. *)
    Lemma program_gates_unitary n (p : list (mgate P)) :
      n <= 5 ->
      (forall x, In x p -> (length (g_qubits P x) <= 3)%nat /\ gate_ok C c0 c1 cadd cmul cconj P base n x) ->
      unitary (N.to_nat (2 ^ n))
              (program_unitary C c0 c1 cadd cmul (gate_unitary_model C c0 c1 cadd cmul cconj P base n)
                               (N.to_nat (2 ^ n)) p).
    Proof.
      intros Hn H.
      apply (program_unitary_unitary C c0 c1 cadd cmul csub copp cconj Cring conj_0 conj_1 conj_add conj_mul).
      intros x Hx. destruct (H x Hx) as [H3 Hok]. now apply gate_unitary_model_unitary.
    Qed.
  End Stacks.
End Gen.

(** * The standard gate tables are unitary, for every angle *)

Definition nlist (d : nat) : list N := map N.of_nat (seq 0 d).

Lemma forall_lt (P : N -> Prop) d : Forall P (nlist d) -> forall r, r < N.of_nat d -> P r.
Proof.
  intros H r Hr. rewrite Forall_forall in H. apply H. unfold nlist. apply in_map_iff.
  exists (N.to_nat r). split; [lia|]. apply in_seq. lia.
Qed.

Lemma forall_lt2 (P : N -> N -> Prop) d :
  Forall (fun r => Forall (fun c => P r c) (nlist d)) (nlist d) ->
  forall r c, r < N.of_nat d -> c < N.of_nat d -> P r c.
Proof.
  intros H r c Hr Hc. revert c Hc. apply forall_lt. revert r Hr. apply forall_lt. exact H.
Qed.

Section Tables.
  Variables (C A : Type).
  Variables (c0 c1 ci cs ccis4 : C) (cadd cmul csub : C -> C -> C) (copp cconj : C -> C).
  Variables (half aneg : A -> A) (ccos csin ccis : A -> C).
  Hypothesis Cring : ring_theory c0 c1 cadd cmul csub copp (@eq C).
  Hypothesis conj_0 : cconj c0 = c0.
  Hypothesis conj_1 : cconj c1 = c1.
  Hypothesis conj_add : forall a b, cconj (cadd a b) = cadd (cconj a) (cconj b).
  Hypothesis conj_mul : forall a b, cconj (cmul a b) = cmul (cconj a) (cconj b).
  (** i^2 = -1, conj i = -i *)
  Hypothesis conj_i : cconj ci = copp ci.
  Hypothesis i_sq : cmul ci ci = copp c1.
  (** s = 1/sqrt 2 is real with 2 s^2 = 1 *)
  Hypothesis conj_s : cconj cs = cs.
  Hypothesis s_sq : cadd (cmul cs cs) (cmul cs cs) = c1.
  (** e^{i pi/4} lies on the unit circle *)
  Hypothesis cis4_unit : cmul (cconj ccis4) ccis4 = c1.
  (** cos and sin are real with cos^2 + sin^2 = 1 *)
  Hypothesis conj_cos : forall a, cconj (ccos a) = ccos a.
  Hypothesis conj_sin : forall a, cconj (csin a) = csin a.
  Hypothesis cos_sin : forall a, cadd (cmul (ccos a) (ccos a)) (cmul (csin a) (csin a)) = c1.

  Add Ring CRt : Cring.

  Notation unitary := (unitary C c0 c1 cadd cmul cconj).
  Notation tm := (table_matrix C A c0 c1 ci cs ccis4 cadd cmul csub copp half aneg ccos csin ccis).

  Lemma conj_opp a : cconj (copp a) = copp (cconj a).
  Proof.
    assert (H : cadd (cconj a) (cconj (copp a)) = c0).
    { rewrite <- conj_add. replace (cadd a (copp a)) with c0 by ring. exact conj_0. }
    transitivity (cadd (cadd (cconj a) (cconj (copp a))) (copp (cconj a))); [ring|].
    rewrite H. ring.
  Qed.
  Lemma conj_sub a b : cconj (csub a b) = csub (cconj a) (cconj b).
  Proof.
    replace (csub a b) with (cadd a (copp b)) by ring. rewrite conj_add, conj_opp. ring.
  Qed.
  Lemma cos2 a : cmul (ccos a) (ccos a) = csub c1 (cmul (csin a) (csin a)).
  Proof. rewrite <- (cos_sin a). ring. Qed.

  Ltac push_conj :=
    repeat first [ rewrite conj_mul | rewrite conj_add | rewrite conj_sub | rewrite conj_opp
                 | rewrite conj_0 | rewrite conj_1 | rewrite conj_i | rewrite conj_s
                 | rewrite conj_cos | rewrite conj_sin ].

  Ltac entry theta :=
    vm_compute; push_conj;
    first [ ring
          | ring [i_sq (cos2 (half theta)) (cos2 theta)]
          | (transitivity (cadd (cmul cs cs) (cmul cs cs)); [ring | exact s_sq])
          | (transitivity (cmul (cconj ccis4) ccis4); [ring | exact cis4_unit]) ].

  Ltac all_entries theta :=
    apply forall_lt2; vm_compute nlist;
    repeat (first [apply Forall_nil | apply Forall_cons]); entry theta.

  Lemma model_table_unitary (theta : A) (g : gate) :
    unitary (N.to_nat (2 ^ arity g)) (tm (model_table g) theta).
  Proof.
    destruct g.
    all: split.
    all: match goal with |- forall r c, r < N.of_nat ?d -> _ =>
           let d' := eval vm_compute in d in change d with d' end.
    all: all_entries theta.
  Qed.

  (** The specification's own tables (RZ, PHASE, ... written with e^{i a}): the same matrices by
      C14_table, under Euler's formula and the parities of cos and sin. *)
  Section SpecTables.
    Hypothesis euler : forall a, ccis a = cadd (ccos a) (cmul ci (csin a)).
    Hypothesis cos_even : forall a, ccos (aneg a) = ccos a.
    Hypothesis sin_odd : forall a, csin (aneg a) = copp (csin a).

    Lemma spec_table_unitary (theta : A) (g : gate) :
      unitary (N.to_nat (2 ^ arity g)) (tm (spec_table g) theta).
    Proof.
      apply (unitary_ext C c0 c1 cadd cmul cconj _ (tm (model_table g) theta)).
      - intros r c _ _. unfold table_matrix.
        apply (entry_equal C A c0 c1 ci cs ccis4 cadd cmul csub copp theta half aneg ccos csin ccis
                 Cring euler cos_even sin_odd).
      - apply model_table_unitary.
    Qed.
  End SpecTables.
End Tables.

(** * The hypotheses are satisfiable: the field Q(zeta_8) over the canonical rationals *)
Section K8.
  Local Open Scope Qc_scope.

  Lemma K8_ring : ring_theory K8_0 K8_1 K8_add K8_mul K8_sub K8_opp (@eq K8).
  Proof.
    constructor; intros; repeat match goal with x : K8 |- _ =>
        let a := fresh "qa" in let b := fresh "qb" in let c := fresh "qc" in let d := fresh "qd" in
        destruct x as [a b c d] end;
      unfold K8_0, K8_1, K8_add, K8_mul, K8_sub, K8_opp; cbn [k8a k8b k8c k8d];
      try reflexivity; f_equal; ring.
  Qed.

  Lemma K8_conj_add x y : K8_conj (K8_add x y) = K8_add (K8_conj x) (K8_conj y).
  Proof. destruct x as [xa xb xc xd], y as [ya yb yc yd]. unfold K8_conj, K8_add; cbn [k8a k8b k8c k8d]. f_equal; ring. Qed.
  Lemma K8_conj_mul x y : K8_conj (K8_mul x y) = K8_mul (K8_conj x) (K8_conj y).
  Proof. destruct x as [xa xb xc xd], y as [ya yb yc yd]. unfold K8_conj, K8_mul; cbn [k8a k8b k8c k8d]. f_equal; ring. Qed.
  Lemma K8_conj_invol x : K8_conj (K8_conj x) = x.
  Proof. destruct x as [xa xb xc xd]. unfold K8_conj; cbn [k8a k8b k8c k8d]. f_equal; ring. Qed.
  Lemma K8_conj_0 : K8_conj K8_0 = K8_0.
  Proof. unfold K8_conj, K8_0; cbn [k8a k8b k8c k8d]. f_equal; ring. Qed.
  Lemma K8_conj_1 : K8_conj K8_1 = K8_1.
  Proof. unfold K8_conj, K8_1; cbn [k8a k8b k8c k8d]. f_equal; ring. Qed.

  Lemma K8_conj_i : K8_conj K8_i = K8_opp K8_i.
  Proof. unfold K8_conj, K8_opp, K8_i; cbn [k8a k8b k8c k8d]. f_equal; ring. Qed.
  Lemma K8_i_sq : K8_mul K8_i K8_i = K8_opp K8_1.
  Proof. unfold K8_mul, K8_opp, K8_i, K8_1; cbn [k8a k8b k8c k8d]. f_equal; ring. Qed.

  Lemma qhalf_double : qhalf + qhalf = 1.
  Proof. apply Qc_is_canon. vm_compute. reflexivity. Qed.
  Lemma K8_conj_s : K8_conj K8_s = K8_s.
  Proof. unfold K8_conj, K8_s; cbn [k8a k8b k8c k8d]. f_equal; ring. Qed.
  Lemma K8_s_sq : K8_add (K8_mul K8_s K8_s) (K8_mul K8_s K8_s) = K8_1.
  Proof.
    unfold K8_add, K8_mul, K8_s, K8_1; cbn [k8a k8b k8c k8d]. f_equal; try ring.
    transitivity ((qhalf + qhalf) * (qhalf + qhalf)); [ring | rewrite qhalf_double; ring].
  Qed.
  Lemma K8_cis4_unit : K8_mul (K8_conj K8_cis4) K8_cis4 = K8_1.
  Proof. unfold K8_mul, K8_conj, K8_cis4, K8_1; cbn [k8a k8b k8c k8d]. f_equal; ring. Qed.
  (** zeta_8 really is (1 + i)/sqrt 2 *)
  Lemma K8_cis4_value : K8_cis4 = K8_add K8_s (K8_mul K8_i K8_s).
  Proof. unfold K8_add, K8_mul, K8_s, K8_i, K8_cis4; cbn [k8a k8b k8c k8d]. f_equal; try ring.
    transitivity (qhalf + qhalf); [symmetry; exact qhalf_double | ring]. Qed.

  Lemma K8_conj_real q : K8_conj (K8_of_Qc q) = K8_of_Qc q.
  Proof. unfold K8_conj, K8_of_Qc; cbn [k8a k8b k8c k8d]. f_equal; ring. Qed.

  Lemma q35_q45 : q35 * q35 + q45 * q45 = 1.
  Proof. apply Qc_is_canon. vm_compute. reflexivity. Qed.

  Lemma rot_nat_norm k : fst (rot_nat k) * fst (rot_nat k) + snd (rot_nat k) * snd (rot_nat k) = 1.
  Proof.
    induction k as [|k IH]; [cbn; ring|].
    cbn [rot_nat]. set (cs := rot_nat k) in *. unfold rot_step. cbn [fst snd].
    transitivity ((fst cs * fst cs + snd cs * snd cs) * (q35 * q35 + q45 * q45)); [ring|].
    rewrite IH, q35_q45. ring.
  Qed.

  Lemma rot_norm k : fst (rot k) * fst (rot k) + snd (rot k) * snd (rot k) = 1.
  Proof.
    destruct k as [|p|p]; cbn [rot fst snd]; [ring | apply rot_nat_norm |].
    rewrite <- (rot_nat_norm (Pos.to_nat p)). ring.
  Qed.

  Lemma K8_cos_sin k :
    K8_add (K8_mul (K8_cos k) (K8_cos k)) (K8_mul (K8_sin k) (K8_sin k)) = K8_1.
  Proof.
    unfold K8_cos, K8_sin, K8_of_Qc, K8_add, K8_mul, K8_1; cbn [k8a k8b k8c k8d]. f_equal; try ring.
    rewrite <- (rot_norm k). ring.
  Qed.

  Lemma K8_cos_even k : K8_cos (Z.opp k) = K8_cos k.
  Proof. destruct k; reflexivity. Qed.
  Lemma K8_sin_odd k : K8_sin (Z.opp k) = K8_opp (K8_sin k).
  Proof.
    destruct k; unfold K8_sin, K8_of_Qc, K8_opp; cbn [Z.opp rot fst snd k8a k8b k8c k8d]; f_equal; ring.
  Qed.
End K8.

(** * Conclusion for the standard gates *)
Section Std.
  Variables (C A : Type).
  Variables (c0 c1 ci cs ccis4 : C) (cadd cmul csub : C -> C -> C) (copp cconj : C -> C).
  Variables (half aneg : A -> A) (ccos csin ccis : A -> C) (theta0 : A).
  Hypothesis Cring : ring_theory c0 c1 cadd cmul csub copp (@eq C).
  Hypothesis conj_0 : cconj c0 = c0.
  Hypothesis conj_1 : cconj c1 = c1.
  Hypothesis conj_add : forall a b, cconj (cadd a b) = cadd (cconj a) (cconj b).
  Hypothesis conj_mul : forall a b, cconj (cmul a b) = cmul (cconj a) (cconj b).
  Hypothesis conj_invol : forall a, cconj (cconj a) = a.
  Hypothesis conj_i : cconj ci = copp ci.
  Hypothesis i_sq : cmul ci ci = copp c1.
  Hypothesis conj_s : cconj cs = cs.
  Hypothesis s_sq : cadd (cmul cs cs) (cmul cs cs) = c1.
  Hypothesis cis4_unit : cmul (cconj ccis4) ccis4 = c1.
  Hypothesis conj_cos : forall a, cconj (ccos a) = ccos a.
  Hypothesis conj_sin : forall a, cconj (csin a) = csin a.
  Hypothesis cos_sin : forall a, cadd (cmul (ccos a) (ccos a)) (cmul (csin a) (csin a)) = c1.

  Notation unitary := (unitary C c0 c1 cadd cmul cconj).
  Notation sbase := (std_base C A c0 c1 ci cs ccis4 cadd cmul csub copp half aneg ccos csin ccis theta0).

  Lemma std_base_unitary g p : unitary (N.to_nat (2 ^ arity g)) (sbase g p).
  Proof.
    unfold std_base.
    apply (model_table_unitary C A c0 c1 ci cs ccis4 cadd cmul csub copp cconj half aneg ccos csin ccis);
      assumption.
  Qed.

  (** Every modifier stack over a standard gate — mixed CONTROLLED/FORKED stacks included: the
      code pairs the modifier qubits differently there, but its matrix is still built from the same
      block constructions. *)
  Lemma std_gate_matrix_unitary g s p m :
    gate_matrix C c0 c1 cadd cmul cconj A sbase g s p = Ok m ->
    unitary (N.to_nat (mdim C m)) (ment C m).
  Proof.
    apply (gate_matrix_unitary C c0 c1 cadd cmul csub copp cconj); auto using std_base_unitary.
  Qed.

  Lemma std_spec_matrix_unitary g s p m :
    spec_matrix C c0 c1 cadd cmul cconj A sbase g s p = Ok m ->
    unitary (N.to_nat (mdim C m)) (ment C m).
  Proof.
    apply (spec_matrix_unitary C c0 c1 cadd cmul csub copp cconj); auto using std_base_unitary.
  Qed.

  Lemma std_gate_unitary n (x : mgate A) :
    n <= 5 -> (length (g_qubits A x) <= 3)%nat ->
    gate_ok C c0 c1 cadd cmul cconj A sbase n x ->
    unitary (N.to_nat (2 ^ n)) (gate_unitary_model C c0 c1 cadd cmul cconj A sbase n x).
  Proof.
    apply (gate_unitary_model_unitary C c0 c1 cadd cmul csub copp cconj); auto using std_base_unitary.
  Qed.

  Lemma std_program_unitary n (p : list (mgate A)) :
    n <= 5 ->
    (forall x, In x p -> (length (g_qubits A x) <= 3)%nat /\ gate_ok C c0 c1 cadd cmul cconj A sbase n x) ->
    unitary (N.to_nat (2 ^ n))
            (program_unitary C c0 c1 cadd cmul (gate_unitary_model C c0 c1 cadd cmul cconj A sbase n)
                             (N.to_nat (2 ^ n)) p).
  Proof.
    apply (program_gates_unitary C c0 c1 cadd cmul csub copp cconj); auto using std_base_unitary.
  Qed.
End Std.

Lemma K8_hypotheses :
  ring_theory K8_0 K8_1 K8_add K8_mul K8_sub K8_opp (@eq K8) /\
  K8_conj K8_0 = K8_0 /\ K8_conj K8_1 = K8_1 /\
  (forall a b, K8_conj (K8_add a b) = K8_add (K8_conj a) (K8_conj b)) /\
  (forall a b, K8_conj (K8_mul a b) = K8_mul (K8_conj a) (K8_conj b)) /\
  (forall a, K8_conj (K8_conj a) = a) /\
  K8_conj K8_i = K8_opp K8_i /\ K8_mul K8_i K8_i = K8_opp K8_1 /\
  K8_conj K8_s = K8_s /\ K8_add (K8_mul K8_s K8_s) (K8_mul K8_s K8_s) = K8_1 /\
  K8_mul (K8_conj K8_cis4) K8_cis4 = K8_1 /\
  (forall k : Z, K8_conj (K8_cos k) = K8_cos k) /\ (forall k : Z, K8_conj (K8_sin k) = K8_sin k) /\
  (forall k : Z, K8_add (K8_mul (K8_cos k) (K8_cos k)) (K8_mul (K8_sin k) (K8_sin k)) = K8_1) /\
  (forall k : Z, K8_cis k = K8_add (K8_cos k) (K8_mul K8_i (K8_sin k))) /\
  (forall k : Z, K8_cos (Z.opp k) = K8_cos k) /\ (forall k : Z, K8_sin (Z.opp k) = K8_opp (K8_sin k)) /\
  K8_cis4 = K8_add K8_s (K8_mul K8_i K8_s).
Proof.
  repeat split;
    auto using K8_conj_0, K8_conj_1, K8_conj_add, K8_conj_mul, K8_conj_invol, K8_conj_i, K8_i_sq,
      K8_conj_s, K8_s_sq, K8_cis4_unit, K8_cos_sin, K8_cos_even, K8_sin_odd, K8_cis4_value;
    try (intros; apply K8_conj_real); try apply K8_ring.
Qed.
