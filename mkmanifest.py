#!/usr/bin/env python3
"""Regenerate MANIFEST.json from checks.json (claimed properties) and properties.jsonl."""
import json, os, subprocess
ROOT = os.path.dirname(os.path.abspath(__file__))
checks = {}
for _f in sorted(os.listdir(os.path.join(ROOT, "checks"))):
    if _f.endswith(".json"):
        checks[_f[:-5]] = json.load(open(os.path.join(ROOT, "checks", _f)))
props = [json.loads(l) for l in open(os.path.join(ROOT, "properties.jsonl"))]
na_reasons = json.load(open(os.path.join(ROOT, "not_applicable.json"))) if os.path.exists(os.path.join(ROOT, "not_applicable.json")) else {}
hook_commits = subprocess.run("git -C /repo log --format=%H --grep='^verif hooks'", shell=True, stdout=subprocess.PIPE).stdout.decode().split()
def ready(pid):
    """claimed only when the last run of the check in this tree passed (evidence with 0 violations)"""
    ev = os.path.join(ROOT, "evidence", pid + ".json")
    try:
        return json.load(open(ev)).get("violations", 1) == 0
    except Exception:
        return False
m = {
 "version": 1,
 "setup_cmd": "./check --setup",
 "hooks": {
  "guard": "cfg(rigetti_quil_rs_verif)",
  "enable": "RUSTFLAGS=\"--cfg rigetti_quil_rs_verif\" (set in /verif/harness/.cargo/config.toml; the harness crate has a path dependency on /repo/quil-rs and is rebuilt by every check)",
  "baseline_off_cmd": "cd /repo && cargo nextest run --workspace --no-fail-fast --test-threads 8 --offline || cargo test --workspace --no-fail-fast --offline",
  "source_commits": hook_commits,
  "add_only": True,
 },
 "engines": [
  {"name": "coq-model-and-proofs", "path": "coq/", "serves_properties": sorted(c for c in checks if ready(c)), "kind_free_text": "Gallina models (coq/Model), lemmas (coq/Proofs), pinned property theorems (coq/Props), Coq 8.16.1 full .vo build"},
  {"name": "correspondence-harness", "path": "harness/", "serves_properties": sorted(c for c in checks if ready(c)), "kind_free_text": "Rust crate with a path dependency on /repo/quil-rs; generates cases, runs the implementation, emits Coq case shards in which the model and the verified instance checker are evaluated by vm_compute"},
 ],
 "checks": [],
 "notes": "See DESIGN.md. Every check = machine-checked theorems about a Gallina model + a correspondence run tying the model to /repo's current working tree.",
 "not_applicable": [],
}

for p in props:
    pid = p["id"]
    if pid in checks and ready(pid):
        c = checks[pid]
        m["checks"].append({
            "property_id": pid,
            "quick_cmd": f"./check {pid} --tier quick",
            "thorough_cmd": f"./check {pid} --tier thorough",
            "evidence_file": f"/verif/evidence/{pid}.json",
            "replay_cmd_template": f"./check {pid} --replay {{path}}",
            "engine": "coq-model-and-proofs",
            "level_claimed": {"category": c.get("level", "proof"), "text": c["explanation"], "design_ref": c.get("design_ref", "DESIGN.md section 8, " + pid)},
            "level_note": "; ".join(c.get("trusted_base", []) + c.get("assumptions", [])),
            "technique": c.get("technique", "Rocq/Coq theorem about an executable Gallina model + model/implementation correspondence run (vm_compute) with a verified instance checker"),
        })
    else:
        m["not_applicable"].append({"property_id": pid, "reason": na_reasons.get(pid, "not claimed yet: model and theorem for this property are still under construction (see DESIGN.md section 12); no check is registered, nothing is asserted")})
json.dump(m, open(os.path.join(ROOT, "MANIFEST.json"), "w"), indent=1)
print("claimed", len(m["checks"]), "not claimed", len(m["not_applicable"]))
